//! Structured fuzzing of one tape-driven stage: libFuzzer's bytes are the choice tape of the same
//! decoders the proptest stages use, so coverage feedback steers the *generators*; the semantic
//! oracle of the stage runs inside the target. Selected by env EBV_FUZZ_PROP / EBV_FUZZ_STAGE.
#![no_main]
use std::sync::OnceLock;

use ebv_core::runner::{Case, Input, Stage};
use libfuzzer_sys::fuzz_target;

#[global_allocator]
static GLOBAL: ebv_core::allocstat::CountingAlloc = ebv_core::allocstat::CountingAlloc;

static STAGE: OnceLock<(String, Stage)> = OnceLock::new();

fn stage() -> &'static (String, Stage) {
    STAGE.get_or_init(|| {
        ebv_core::runner::install_quiet_panic_hook();
        let prop = std::env::var("EBV_FUZZ_PROP").expect("EBV_FUZZ_PROP");
        let name = std::env::var("EBV_FUZZ_STAGE").expect("EBV_FUZZ_STAGE");
        let reg = ebv_core::props::registry();
        let p = reg.iter().find(|p| p.id == prop).expect("unknown property");
        let s = p.stages.iter().find(|s| s.name == name).expect("unknown stage");
        (prop, *s)
    })
}

fuzz_target!(|data: &[u8]| {
    let (prop, st) = stage();
    let tape = ebv_core::tape::tape_from_bytes(data);
    let input = Input::Tape(tape);
    let mut case = Case::default();
    let r = std::panic::catch_unwind(std::panic::AssertUnwindSafe(|| (st.f)(&input, &mut case)));
    match r {
        Ok(Ok(())) => {}
        Ok(Err(m)) => {
            eprintln!("EBV-VIOLATION {} stage {}: {}", prop, st.name, m);
            std::process::abort();
        }
        Err(_) => {
            eprintln!("EBV-HARNESS-PANIC {} stage {}", prop, st.name);
            std::process::abort();
        }
    }
});
