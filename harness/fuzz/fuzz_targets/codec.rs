//! C15 / C16 on raw bytes: decoders on the slice itself, encoders on values taken from it.
#![no_main]
use ebv_core::props::{c15, c16};
use ebv_core::runner::Case;
use libfuzzer_sys::fuzz_target;

fuzz_target!(|data: &[u8]| {
    static INIT: std::sync::Once = std::sync::Once::new();
    INIT.call_once(ebv_core::runner::install_quiet_panic_hook);
    let d = &data[..data.len().min(9)];
    let mut errs = Vec::new();
    if let Err(e) = c15::check_slice(d) {
        errs.push(format!("C15 {}", e));
    }
    if let Err(e) = c16::check_slice(d) {
        errs.push(format!("C16 {}", e));
    }
    if data.len() >= 8 {
        let v = u64::from_le_bytes([data[0], data[1], data[2], data[3], data[4], data[5], data[6], data[7]]);
        if let Err(e) = c15::check_unsigned(v) {
            errs.push(format!("C15 {}", e));
        }
        let mut c = Case::default();
        if let Err(e) = c15::check_signed(v as i64, &mut c) {
            errs.push(format!("C15 {}", e));
        }
        if let Err(e) = c15::check_id(v) {
            errs.push(format!("C15 {}", e));
        }
        for p in [ebv_core::model::Payload::U(v), ebv_core::model::Payload::I(v as i64), ebv_core::model::Payload::F(v)] {
            if let Err(e) = c16::check_written(&p) {
                errs.push(format!("C16 {}", e));
            }
        }
    }
    if !errs.is_empty() {
        eprintln!("EBV-VIOLATION {}", errs.join(" ; "));
        std::process::abort();
    }
});
