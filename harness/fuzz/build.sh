#!/bin/sh
# builds the libFuzzer targets (nightly, offline, no sanitizer)
cd "$(dirname "$0")/.." || exit 1
CARGO_NET_OFFLINE=true cargo +nightly fuzz build --sanitizer none 2>&1 | tail -3
