//! The derive macro's implementation, callable in-process on proc_macro2 token streams.
//! The four source files of /repo/specification-derive are included verbatim by path, so every
//! run compiles the macro's current working tree.

#![allow(dead_code)]

#[path = "/repo/specification-derive/src/ast.rs"]
mod ast;
#[path = "/repo/specification-derive/src/attr.rs"]
mod attr;
#[path = "/repo/specification-derive/src/easy_ebml.rs"]
mod easy_ebml;
#[path = "/repo/specification-derive/src/pathing.rs"]
mod pathing;

use std::collections::BTreeMap;
use std::panic::{catch_unwind, AssertUnwindSafe};

use proc_macro2::TokenStream;
use quote::ToTokens;
use syn::{ItemEnum, ItemImpl};

#[derive(Debug, Clone, PartialEq, Eq)]
pub enum Outcome {
    /// macro succeeded: generated tokens as a string
    Ok(String),
    /// macro returned a compile error
    Err(String),
    /// macro body panicked (also a compile error for the user)
    Panic(String),
    /// the source text is not even an enum / easy_ebml body (harness-side problem or syntax-level rejection)
    Parse(String),
}

fn guard(f: impl FnOnce() -> Outcome) -> Outcome {
    match catch_unwind(AssertUnwindSafe(f)) {
        Ok(o) => o,
        Err(p) => {
            let m = if let Some(s) = p.downcast_ref::<&str>() {
                s.to_string()
            } else if let Some(s) = p.downcast_ref::<String>() {
                s.clone()
            } else {
                "<panic>".into()
            };
            Outcome::Panic(m)
        }
    }
}

/// `src` = the enum item as the user writes it under `#[ebml_specification]` (without that attribute itself)
pub fn expand_attribute(src: &str) -> Outcome {
    guard(|| {
        let ts: TokenStream = match src.parse() {
            Ok(t) => t,
            Err(e) => return Outcome::Parse(format!("lex: {}", e)),
        };
        let mut item: ItemEnum = match syn::parse2(ts) {
            Ok(i) => i,
            Err(e) => return Outcome::Parse(format!("not an enum: {}", e)),
        };
        match attr::impl_ebml_specification(&mut item) {
            Ok(t) => Outcome::Ok(t.to_string()),
            Err(e) => Outcome::Err(e.to_string()),
        }
    })
}

/// `src` = the body of `easy_ebml! { ... }`
pub fn expand_easy(src: &str) -> Outcome {
    guard(|| {
        let ts: TokenStream = match src.parse() {
            Ok(t) => t,
            Err(e) => return Outcome::Parse(format!("lex: {}", e)),
        };
        let parsed: easy_ebml::EasyEBML = match syn::parse2(ts) {
            Ok(p) => p,
            Err(e) => return Outcome::Err(format!("easy_ebml syntax: {}", e)),
        };
        let lowered = match parsed.implement() {
            Ok(t) => t,
            Err(e) => return Outcome::Err(e.to_string()),
        };
        // the lowered item carries #[ebml_iterable::specs::ebml_specification] as its first attribute: rustc would now
        // invoke the attribute macro with the item minus that attribute
        let mut item: ItemEnum = match syn::parse2(lowered) {
            Ok(i) => i,
            Err(e) => return Outcome::Err(format!("easy_ebml produced something that is not an enum: {}", e)),
        };
        let before = item.attrs.len();
        item.attrs.retain(|a| a.path.segments.last().map(|s| s.ident != "ebml_specification").unwrap_or(true));
        if item.attrs.len() + 1 != before {
            return Outcome::Err("easy_ebml did not attach exactly one #[ebml_specification] attribute".into());
        }
        match attr::impl_ebml_specification(&mut item) {
            Ok(t) => Outcome::Ok(t.to_string()),
            Err(e) => Outcome::Err(e.to_string()),
        }
    })
}

/// Generated code read back as tables of strings (whitespace-free token text).
#[derive(Debug, Default, Clone)]
pub struct Interp {
    pub enum_name: String,
    pub enum_attrs: Vec<String>,
    /// (variant, field types)
    pub variants: Vec<(String, String)>,
    /// per generated fn: list of (pattern, body) of its top-level match; fns without a match have one ("", body)
    pub fns: BTreeMap<String, Vec<(String, String)>>,
    pub impl_traits: Vec<String>,
}

fn squash(t: impl ToTokens) -> String {
    t.to_token_stream().to_string().chars().filter(|c| !c.is_whitespace()).collect()
}

pub fn interpret(tokens: &str) -> Result<Interp, String> {
    let file: syn::File = syn::parse_str(tokens).map_err(|e| format!("generated code does not parse: {}", e))?;
    let mut out = Interp::default();
    for item in file.items {
        match item {
            syn::Item::Enum(e) => {
                out.enum_name = e.ident.to_string();
                out.enum_attrs = e.attrs.iter().map(squash).collect();
                for v in e.variants {
                    if !v.attrs.is_empty() {
                        return Err(format!("variant {} still carries attributes: {}", v.ident, v.attrs.iter().map(squash).collect::<Vec<_>>().join(" ")));
                    }
                    out.variants.push((v.ident.to_string(), squash(&v.fields)));
                }
            }
            syn::Item::Impl(ItemImpl { trait_, items, .. }) => {
                if let Some((_, path, _)) = trait_ {
                    out.impl_traits.push(squash(&path));
                }
                for it in items {
                    if let syn::ImplItem::Method(m) = it {
                        let name = m.sig.ident.to_string();
                        let mut arms = Vec::new();
                        let stmts = &m.block.stmts;
                        match stmts.last() {
                            Some(syn::Stmt::Expr(syn::Expr::Match(mm))) if stmts.len() == 1 => {
                                arms.push(("<scrutinee>".to_string(), squash(&mm.expr)));
                                for a in &mm.arms {
                                    if a.guard.is_some() {
                                        return Err(format!("fn {}: match arm with a guard", name));
                                    }
                                    arms.push((squash(&a.pat), squash(&a.body)));
                                }
                            }
                            Some(other) if stmts.len() == 1 => arms.push(("".to_string(), squash(other))),
                            _ => return Err(format!("fn {}: unexpected body shape", name)),
                        }
                        if out.fns.insert(name.clone(), arms).is_some() {
                            return Err(format!("fn {} generated twice", name));
                        }
                    }
                }
            }
            other => return Err(format!("unexpected generated item: {}", squash(&other).chars().take(80).collect::<String>())),
        }
    }
    Ok(out)
}
