use ebv_core::drive::*;
use ebv_core::mutate::*;
use ebv_core::runner::*;
use ebv_core::tape::Tape;
use ebv_core::dynspec::DynTag;
fn main() {
    let rf = read_replay(std::path::Path::new(&std::env::args().nth(1).unwrap())).unwrap();
    let mut t = Tape::new(rf.input.tape());
    let m = gen_mixed(&mut t, MixOpts { weights: [1, 1, 6, 2, 4, 2], ..MixOpts::default() });
    println!("len {} rich {}", m.bytes.len(), m.spec.is_rich());
    println!("bytes from 60: {}", ebv_core::model::hex(&m.bytes[60..120]));
    // same config as the failing case, no injected failure, recover right after the End@77
    let cfg = ReadCfg { tolerate: 2, max_size: MaxSize::Set(Some(1 << 20)), ..ReadCfg::default() };
    for fail in [false, true] {
        let mut steps = vec![RStep::Chunk(100)];
        if fail { steps.push(RStep::Fail(1)); }
        steps.push(RStep::Chunk(1000));
        let mut src = ScriptRead::new(&m.bytes, steps);
        let mut rd = Rd::<DynTag, _>::new(&mut src, &cfg).unwrap();
        let mut n = 0;
        loop {
            n += 1;
            match rd.next() {
                Step::Item(f, o) => { println!("{:?}@{}", f, o); if o == 77 && f.is_end() { println!("recover -> {:?}", rd.recover()); } }
                Step::Err(e) => { println!("ERR {:?}", e); }
                Step::Done => { println!("None"); break; }
                Step::Panic(p) => { println!("PANIC {}", p); break; }
            }
            if n > 80 { break; }
        }
        println!("-----");
    }
}
