//! Counting allocator with THREAD-LOCAL live/peak byte counters, so that 16 shards do not disturb each other.
//! Installed as #[global_allocator] by the `ebv` binary.

use std::alloc::{GlobalAlloc, Layout, System};
use std::cell::Cell;
use std::sync::atomic::{AtomicBool, Ordering};

thread_local! {
    static LIVE: Cell<isize> = const { Cell::new(0) };
    static PEAK: Cell<isize> = const { Cell::new(0) };
    static LARGEST: Cell<usize> = const { Cell::new(0) };
}

static ACTIVE: AtomicBool = AtomicBool::new(false);
/// debugging aid (EBV_ALLOC_TRACE=<bytes>): print a backtrace for every allocation of at least that many bytes
static TRACE_AT: std::sync::atomic::AtomicUsize = std::sync::atomic::AtomicUsize::new(usize::MAX);
thread_local! {
    static IN_TRACE: Cell<bool> = const { Cell::new(false) };
}

pub fn trace_from_env() {
    if let Some(n) = std::env::var("EBV_ALLOC_TRACE").ok().and_then(|x| x.parse::<usize>().ok()) {
        TRACE_AT.store(n, Ordering::Relaxed);
    }
}

fn trace(single: usize) {
    if single >= TRACE_AT.load(Ordering::Relaxed) {
        let _ = IN_TRACE.try_with(|f| {
            if !f.get() {
                f.set(true);
                eprintln!("ALLOC {} bytes at\n{}", single, std::backtrace::Backtrace::force_capture());
                f.set(false);
            }
        });
    }
}

pub struct CountingAlloc;

#[inline]
fn add(n: isize, single: usize) {
    // try_with: thread-locals may be gone during thread teardown
    let _ = LIVE.try_with(|l| {
        let v = l.get() + n;
        l.set(v);
        let _ = PEAK.try_with(|p| {
            if v > p.get() {
                p.set(v);
            }
        });
    });
    if single > 0 {
        trace(single);
        let _ = LARGEST.try_with(|m| {
            if single > m.get() {
                m.set(single);
            }
        });
    }
}

unsafe impl GlobalAlloc for CountingAlloc {
    unsafe fn alloc(&self, l: Layout) -> *mut u8 {
        ACTIVE.store(true, Ordering::Relaxed);
        let p = System.alloc(l);
        if !p.is_null() {
            add(l.size() as isize, l.size());
        }
        p
    }
    unsafe fn alloc_zeroed(&self, l: Layout) -> *mut u8 {
        ACTIVE.store(true, Ordering::Relaxed);
        let p = System.alloc_zeroed(l);
        if !p.is_null() {
            add(l.size() as isize, l.size());
        }
        p
    }
    unsafe fn dealloc(&self, p: *mut u8, l: Layout) {
        System.dealloc(p, l);
        add(-(l.size() as isize), 0);
    }
    unsafe fn realloc(&self, p: *mut u8, l: Layout, new: usize) -> *mut u8 {
        let q = System.realloc(p, l, new);
        if !q.is_null() {
            if q == p {
                // resized in place
                add(new as isize - l.size() as isize, new);
            } else {
                // moved: old and new block coexist for the duration of the copy
                add(new as isize, new);
                add(-(l.size() as isize), 0);
            }
        }
        q
    }
}

pub fn active() -> bool {
    ACTIVE.load(Ordering::Relaxed)
}

/// start a measuring window on this thread: returns the live byte count at this moment
pub fn window_start() -> isize {
    let live = LIVE.with(|l| l.get());
    PEAK.with(|p| p.set(live));
    LARGEST.with(|m| m.set(0));
    live
}

/// peak growth (bytes above the window's starting live count) and the largest single allocation since window_start
pub fn window_peak(start_live: isize) -> (usize, usize) {
    let peak = PEAK.with(|p| p.get());
    ((peak - start_live).max(0) as usize, LARGEST.with(|m| m.get()))
}
