//! Neutral data model shared by generators, reference model and oracles.
//! Nothing in here calls the code under test.

use std::collections::HashMap;
use std::fmt;

pub use ebml_iterable::specs::PathPart;

#[derive(Copy, Clone, Debug, PartialEq, Eq, Hash, PartialOrd, Ord)]
pub enum Ty {
    Master,
    U,
    I,
    S,
    B,
    F,
}

impl Ty {
    pub const ALL: [Ty; 6] = [Ty::Master, Ty::U, Ty::I, Ty::S, Ty::B, Ty::F];
    pub fn name(self) -> &'static str {
        match self {
            Ty::Master => "Master",
            Ty::U => "UnsignedInt",
            Ty::I => "Integer",
            Ty::S => "Utf8",
            Ty::B => "Binary",
            Ty::F => "Float",
        }
    }
}

#[derive(Clone, Debug, PartialEq, Eq, Hash)]
pub struct Elem {
    pub id: u64,
    pub ty: Ty,
    pub path: Vec<PathPart>,
    pub name: String,
}

impl Elem {
    pub fn is_global(&self) -> bool {
        self.path.iter().any(|p| matches!(p, PathPart::Global(_)))
    }
    pub fn is_root(&self) -> bool {
        self.path.is_empty()
    }
}

/// A specification as a table: the ground truth the harness generates from.
#[derive(Clone, Debug, Default)]
pub struct SpecTable {
    pub elems: Vec<Elem>,
    pub by_id: HashMap<u64, usize>,
    /// leaked, interned copies of each element's path (for `&'static [PathPart]`)
    pub static_paths: Vec<&'static [PathPart]>,
}

impl SpecTable {
    pub fn new(elems: Vec<Elem>) -> Self {
        let mut by_id = HashMap::new();
        for (i, e) in elems.iter().enumerate() {
            let prev = by_id.insert(e.id, i);
            assert!(prev.is_none(), "duplicate id in SpecTable: {:#x}", e.id);
        }
        let static_paths = elems.iter().map(|e| crate::dynspec::intern_path(&e.path)).collect();
        SpecTable { elems, by_id, static_paths }
    }
    pub fn get(&self, id: u64) -> Option<&Elem> {
        self.by_id.get(&id).map(|&i| &self.elems[i])
    }
    pub fn ty(&self, id: u64) -> Option<Ty> {
        self.get(id).map(|e| e.ty)
    }
    pub fn path(&self, id: u64) -> &[PathPart] {
        self.get(id).map(|e| &e.path[..]).unwrap_or(&[])
    }
    pub fn masters(&self) -> Vec<u64> {
        self.elems.iter().filter(|e| e.ty == Ty::Master).map(|e| e.id).collect()
    }
    pub fn render(&self) -> String {
        let mut s = String::new();
        for e in &self.elems {
            s.push_str(&format!("{}:{}={:#x} path={}; ", e.name, e.ty.name(), e.id, render_path(&e.path)));
        }
        s
    }
    pub fn to_json(&self) -> serde_json::Value {
        serde_json::Value::Array(
            self.elems
                .iter()
                .map(|e| {
                    serde_json::json!({"name": e.name, "id": format!("{:#x}", e.id), "type": e.ty.name(), "path": render_path(&e.path)})
                })
                .collect(),
        )
    }
}

pub fn render_path(p: &[PathPart]) -> String {
    let parts: Vec<String> = p
        .iter()
        .map(|pp| match pp {
            PathPart::Id(i) => format!("{:#x}", i),
            PathPart::Global((a, b)) => format!(
                "({}-{})",
                a.map(|v| v.to_string()).unwrap_or_default(),
                b.map(|v| v.to_string()).unwrap_or_default()
            ),
        })
        .collect();
    if parts.is_empty() {
        "<root>".to_string()
    } else {
        parts.join("/")
    }
}

/// Payload of a non-master element. Floats are kept as bit patterns so equality is bit-exact.
#[derive(Clone, PartialEq, Eq, Hash)]
pub enum Payload {
    U(u64),
    I(i64),
    F(u64),
    S(String),
    B(Vec<u8>),
    /// data of a raw tag (id not in the specification)
    Raw(Vec<u8>),
}

impl fmt::Debug for Payload {
    fn fmt(&self, f: &mut fmt::Formatter<'_>) -> fmt::Result {
        match self {
            Payload::U(v) => write!(f, "U({})", v),
            Payload::I(v) => write!(f, "I({})", v),
            Payload::F(b) => write!(f, "F({:#018x}={:?})", b, f64::from_bits(*b)),
            Payload::S(s) => {
                if s.len() > 24 {
                    write!(f, "S(len={} {:?}..)", s.len(), s.chars().take(8).collect::<String>())
                } else {
                    write!(f, "S({:?})", s)
                }
            }
            Payload::B(b) => write!(f, "B({})", short_bytes(b)),
            Payload::Raw(b) => write!(f, "Raw({})", short_bytes(b)),
        }
    }
}

pub fn short_bytes(b: &[u8]) -> String {
    if b.len() > 16 {
        format!("len={} {}..", b.len(), hex(&b[..8]))
    } else {
        format!("[{}]", hex(b))
    }
}

pub fn hex(b: &[u8]) -> String {
    let mut s = String::with_capacity(b.len() * 2);
    for x in b {
        s.push_str(&format!("{:02x}", x));
    }
    s
}

/// How an element is to be put on the wire by the *reference* encoder, or presented to the writer.
#[derive(Copy, Clone, Debug, PartialEq, Eq, Hash, Default)]
pub struct Enc {
    /// 0 = minimal/default, 1..=8 explicit width of the size field
    pub size_w: u8,
    /// masters only: unknown size (reference encoder: all-ones in width `size_w`, 0 meaning 1)
    pub unknown: bool,
    /// integers: number of extra leading pad bytes (reference encoder only); 255 = zero-length payload for value 0
    pub pad: u8,
    /// floats: encode as 4 bytes (reference encoder only; value must be f32-representable)
    pub f32: bool,
    /// writer presentation: hand the whole subtree over as one Master::Full
    pub full: bool,
    /// harness bookkeeping: tags a node injected by a fault generator (no effect on encoding)
    pub mark: bool,
    /// writer presentation, masters inside a Full item only: given as Start, children, End in the enclosing item's child list
    /// instead of as a nested Full
    pub flat_in_full: bool,
}

#[derive(Clone, Debug, PartialEq, Eq, Hash)]
pub enum NodeKind {
    Master(Vec<Node>),
    Leaf(Payload),
}

#[derive(Clone, Debug, PartialEq, Eq, Hash)]
pub struct Node {
    pub id: u64,
    pub kind: NodeKind,
    pub enc: Enc,
}

impl Node {
    pub fn leaf(id: u64, p: Payload) -> Node {
        Node { id, kind: NodeKind::Leaf(p), enc: Enc::default() }
    }
    pub fn master(id: u64, ch: Vec<Node>) -> Node {
        Node { id, kind: NodeKind::Master(ch), enc: Enc::default() }
    }
    pub fn is_master(&self) -> bool {
        matches!(self.kind, NodeKind::Master(_))
    }
    pub fn children(&self) -> &[Node] {
        match &self.kind {
            NodeKind::Master(c) => c,
            _ => &[],
        }
    }
    pub fn children_mut(&mut self) -> Option<&mut Vec<Node>> {
        match &mut self.kind {
            NodeKind::Master(c) => Some(c),
            _ => None,
        }
    }
    pub fn count(&self) -> usize {
        1 + self.children().iter().map(|c| c.count()).sum::<usize>()
    }
    pub fn depth(&self) -> usize {
        1 + self.children().iter().map(|c| c.depth()).max().unwrap_or(0)
    }
    pub fn count_masters(&self) -> usize {
        if self.is_master() {
            1 + self.children().iter().map(|c| c.count_masters()).sum::<usize>()
        } else {
            0
        }
    }
    pub fn render(&self) -> String {
        let mut s = String::new();
        self.render_into(&mut s);
        s
    }
    fn render_into(&self, s: &mut String) {
        s.push_str(&format!("{:#x}", self.id));
        let e = &self.enc;
        if e.unknown {
            s.push('?');
        }
        if e.size_w != 0 {
            s.push_str(&format!("w{}", e.size_w));
        }
        if e.full {
            s.push_str("F");
        }
        if e.pad != 0 {
            s.push_str(&format!("p{}", e.pad));
        }
        if e.f32 {
            s.push_str("f4");
        }
        match &self.kind {
            NodeKind::Leaf(p) => s.push_str(&format!("={:?}", p)),
            NodeKind::Master(ch) => {
                s.push('{');
                for (i, c) in ch.iter().enumerate() {
                    if i > 0 {
                        s.push(' ');
                    }
                    c.render_into(s);
                }
                s.push('}');
            }
        }
    }
}

pub fn render_forest(f: &[Node]) -> String {
    let mut s: String = f.iter().map(|n| n.render()).collect::<Vec<_>>().join(" ");
    if s.len() > 1500 {
        let mut cut = 1500;
        while !s.is_char_boundary(cut) {
            cut -= 1;
        }
        s.truncate(cut);
        s.push_str("…");
    }
    s
}

/// What an iterator emits / a writer is fed, in neutral form.
#[derive(Clone, PartialEq, Eq, Hash)]
pub enum Flat {
    Start(u64),
    End(u64),
    Full(u64, Vec<Flat>),
    Leaf(u64, Payload),
}

impl fmt::Debug for Flat {
    fn fmt(&self, f: &mut fmt::Formatter<'_>) -> fmt::Result {
        match self {
            Flat::Start(i) => write!(f, "<{:#x}", i),
            Flat::End(i) => write!(f, "{:#x}>", i),
            Flat::Full(i, c) => write!(f, "Full{:#x}{:?}", i, c),
            Flat::Leaf(i, p) => write!(f, "{:#x}={:?}", i, p),
        }
    }
}

impl Flat {
    pub fn id(&self) -> u64 {
        match self {
            Flat::Start(i) | Flat::End(i) | Flat::Full(i, _) | Flat::Leaf(i, _) => *i,
        }
    }
    pub fn is_end(&self) -> bool {
        matches!(self, Flat::End(_))
    }
}

pub fn flatten(forest: &[Node]) -> Vec<Flat> {
    let mut out = Vec::new();
    fn rec(n: &Node, out: &mut Vec<Flat>) {
        match &n.kind {
            NodeKind::Leaf(p) => out.push(Flat::Leaf(n.id, p.clone())),
            NodeKind::Master(ch) => {
                out.push(Flat::Start(n.id));
                for c in ch {
                    rec(c, out);
                }
                out.push(Flat::End(n.id));
            }
        }
    }
    for n in forest {
        rec(n, &mut out);
    }
    out
}

/// Replace each Full by Start, children (recursively), End.
pub fn unroll(items: &[Flat]) -> Vec<Flat> {
    let mut out = Vec::new();
    fn rec(i: &Flat, out: &mut Vec<Flat>) {
        match i {
            Flat::Full(id, ch) => {
                out.push(Flat::Start(*id));
                for c in ch {
                    rec(c, out);
                }
                out.push(Flat::End(*id));
            }
            other => out.push(other.clone()),
        }
    }
    for i in items {
        rec(i, &mut out);
    }
    out
}

pub fn node_to_full(n: &Node) -> Flat {
    match &n.kind {
        NodeKind::Leaf(p) => Flat::Leaf(n.id, p.clone()),
        NodeKind::Master(ch) => {
            let mut v = Vec::new();
            for c in ch {
                push_full_child(c, &mut v);
            }
            Flat::Full(n.id, v)
        }
    }
}

fn push_full_child(c: &Node, out: &mut Vec<Flat>) {
    match &c.kind {
        NodeKind::Master(gc) if c.enc.flat_in_full => {
            out.push(Flat::Start(c.id));
            for g in gc {
                push_full_child(g, out);
            }
            out.push(Flat::End(c.id));
        }
        _ => out.push(node_to_full(c)),
    }
}

pub fn render_flats(f: &[Flat]) -> String {
    let mut s = format!("{:?}", f);
    if s.len() > 1500 {
        let mut cut = 1500;
        while !s.is_char_boundary(cut) {
            cut -= 1;
        }
        s.truncate(cut);
        s.push_str("…");
    }
    s
}
