//! C17 — memory use is bounded by the configured tag size limit, whatever the input claims.

use ebml_iterable::specs::Master;
use ebml_iterable::error::TagIteratorError;
use ebml_iterable::TagIterator;

use crate::allocstat;
use crate::drive::*;
use crate::dynspec::Spec;
use crate::gen::*;
use crate::model::*;
use crate::mutate::*;
use crate::refmodel::*;
use crate::runner::*;
use crate::tape::Tape;
use crate::with_spec;

pub const RULE: &str = "stage header: one element header (leaf of each type, raw id, master) declaring size S ∈ {0, M-1, M, M+1, 2M, 2^21, 2^32, 4·10^9±1, 2^40, 2^56-2} ∪ log-uniform, encoded in every vint width that can hold it, \
placed at root / inside a known-size master with or without room / inside an unknown-size master, followed by 0, 1 or min(S/2, 2^16) payload bytes; limit M ∈ {16, 4096, 2^20, 2^22} or the untouched default; initial capacity ∈ {16, 4096, default}; any tolerance subset. \
The harness' counting global allocator (thread-local live/peak bytes) measures the whole parse incl. construction; items are dropped as they arrive. Oracle: no panic; S > M ⇒ rejected (InvalidTagSize, or an earlier documented check) with peak growth <= 2·cap + 4 KiB and no read request larger than the buffer, and — when nothing in the stream can be read as a size above 64 MiB — two further next() calls after the size error return no item and stay within the same bound; \
S <= M with the payload missing ⇒ peak growth <= 4·max(S, cap) + 4 KiB. Stage long_stream: 150-600 elements of sizes up to the limit under unknown-size masters, capacities 16..1024 ⇒ the same bound over the whole parse (memory must not creep up). Stage stream: any input from the reader mix under limit M with no buffered masters ⇒ peak growth <= 4·max(M, cap) + 8 KiB. \
Non-trivial: S > M in a width >= 2, or S <= M with fewer payload bytes present than declared; distinct by (stream, M, cap, tolerance).";

pub const ASSUMPTIONS: &[&str] = &[
    "heap use as seen by the process' global allocator on the parsing thread; stack and allocator overhead are out of view",
    "with the untouched 4 GB default only sizes above it (rejection) and small sizes are exercised; sizes just below it would really allocate gigabytes, which the statement permits",
    "factor 4 while the buffer grows: the old boxed buffer, its copy and the doubled Vec the copy is moved into coexist during a moving realloc (measured: capacity 65536, S = 70914 costs 4·65536); the same factor bounds a whole parse (buffer + decoded copy + the copy kept inside a UTF-8 error is 3)",
];

pub struct Measured {
    pub items: usize,
    pub err: Option<ErrK>,
    pub panic: Option<String>,
    pub peak: usize,
    pub largest: usize,
    pub max_request: usize,
    /// calls of next() repeated after a size rejection (stop_at_error mode), and how many of them returned an item
    pub retries: usize,
    pub retries_ok: usize,
}

/// the error's kind and numbers without a single allocation inside the measuring window: `norm_err` Debug-formats the
/// problem of a CorruptedTagData (a FromUtf8Error holds the whole payload: ~6 bytes of text per payload byte), which the
/// counting allocator would book as the iterator's (false alarm 9 in DESIGN.md section 14)
fn lean_err(e: TagIteratorError) -> ErrK {
    match e {
        TagIteratorError::CorruptedTagData { tag_id, .. } => ErrK::TagData { tag_id, problem: String::new() },
        TagIteratorError::UnexpectedEOF { tag_start, tag_id, tag_size, .. } => ErrK::Eof { tag_start, tag_id, tag_size, partial: None },
        other => norm_err(other),
    }
}

/// lean driver: no conversion of items (that would allocate in the harness), items dropped immediately
pub fn measure<T: Spec>(bytes: &[u8], cfg: &ReadCfg, stop_at_error: bool, retry_after_size_error: bool) -> Measured {
    let start = allocstat::window_start();
    let mut src = ScriptRead::new(bytes, vec![]);
    let mut items = 0usize;
    let mut err = None;
    let mut raw_err = None;
    let mut retries = 0usize;
    let mut retries_ok = 0usize;
    let r = guarded(|| {
        let buffered: Vec<T> = cfg.buffered.iter().filter_map(|id| T::get_master_tag(*id, Master::Start)).collect();
        let mut it = match cfg.capacity {
            Some(c) => TagIterator::<_, T>::with_capacity(&mut src, &buffered, c),
            None => TagIterator::<_, T>::new(&mut src, &buffered),
        };
        if cfg.tolerate != 0 {
            it.allow_errors(&tolerances(cfg.tolerate));
        }
        if let MaxSize::Set(m) = cfg.max_size {
            it.set_max_allowable_tag_size(m);
        }
        let bound = item_bound(bytes.len());
        let mut errors = 0;
        loop {
            match it.next() {
                None => break,
                Some(Ok(tag)) => {
                    drop(tag);
                    items += 1;
                    if items > bound {
                        break;
                    }
                }
                Some(Err(e)) => {
                    errors += 1;
                    if stop_at_error {
                        // a caller that logs the error and simply calls next() again must get no further with an oversized element than the
                        // first call did: the limit holds per input, not per call
                        if retry_after_size_error && matches!(e, TagIteratorError::CorruptedFileData(ebml_iterable::error::CorruptedFileError::InvalidTagSize { .. })) {
                            for _ in 0..2 {
                                retries += 1;
                                match it.next() {
                                    Some(Ok(tag)) => {
                                        drop(tag);
                                        retries_ok += 1;
                                    }
                                    Some(Err(e2)) => drop(e2),
                                    None => {}
                                }
                            }
                        }
                        // normalised after the window is closed
                        raw_err = Some(e);
                        break;
                    }
                    let k = lean_err(e);
                    if err.is_none() {
                        err = Some(k);
                    }
                    if errors > 3 {
                        break;
                    }
                }
            }
        }
    });
    let (peak, largest) = allocstat::window_peak(start);
    if let Some(e) = raw_err {
        err = Some(norm_err(e));
    }
    Measured { items, err, panic: r.err(), peak, largest, max_request: src.max_request, retries, retries_ok }
}

fn gen_limit(t: &mut Tape) -> Option<usize> {
    match t.weighted(&[4, 5, 5, 4, 1]) {
        0 => None,
        1 => Some(16),
        2 => Some(4096),
        3 => Some(1 << 20),
        _ => Some(1 << 22),
    }
}

fn gen_cap(t: &mut Tape) -> Option<usize> {
    *t.pick(&[None, Some(16usize), Some(4096), Some(100)])
}

fn cap_value(c: Option<usize>) -> usize {
    c.map(|x| x.max(16)).unwrap_or(64 * 1024)
}

/// first pass: every declared size stays at or below 64 MiB, so that an iterator which does not enforce the limit allocates something the
/// harness can measure and report, instead of asking for 2^56 bytes — a failed allocation aborts the process, which is no verdict
fn stage_header(i: &Input, c: &mut Case) -> Result<(), String> {
    header_case(i, c, true)
}

/// second pass: the whole range of declared sizes up to 2^56-2
fn stage_header_huge(i: &Input, c: &mut Case) -> Result<(), String> {
    header_case(i, c, false)
}

const SAFE_S: u64 = 64 << 20;

fn header_case(i: &Input, c: &mut Case, safe: bool) -> Result<(), String> {
    if !allocstat::active() {
        return Err("harness: counting allocator not installed".into());
    }
    let mut t = Tape::new(i.tape());
    let spec = gen_spec_choice(&mut t, SpecOpts::default());
    let table = spec.table().clone();
    let limit = gen_limit(&mut t);
    let m = limit.map(|x| x as u64).unwrap_or(4_000_000_000);
    let cap = gen_cap(&mut t);
    let tol = if t.chance(1, 2) { 0 } else { t.below(8) as u8 };
    // the element
    let e = table.elems[t.below(table.elems.len())].clone();
    let raw = tol & TOL_IDS != 0 && t.chance(1, 5);
    let id = if raw { gen_unknown_id(&mut t, &table) } else { e.id };
    let ty = if raw { None } else { Some(e.ty) };
    let s: u64 = match t.weighted(&[2, 2, 3, 4, 2, 1, 1, 2, 1, 2, 4]) {
        0 => 0,
        1 => m.saturating_sub(1),
        2 => m,
        3 => m + 1,
        4 => 2 * m,
        5 => 1 << 21,
        6 => 1 << 32,
        7 => 4_000_000_000 + t.below(3) as u64 - 1,
        8 => 1 << 40,
        9 => (1u64 << 56) - 2,
        _ => {
            let bits = t.range(1, 55);
            (t.u64() & ((1u64 << bits) - 1)) | (1u64 << (bits - 1))
        }
    };
    let s = if safe && s > SAFE_S {
        if m >= SAFE_S {
            // the untouched default limit: nothing above it is safe to offer in this pass
            1 + t.below(1 << 20) as u64
        } else {
            *t.pick(&[m + 1, 2 * m + 3, (m + (1 << 16)).min(SAFE_S), 1 << 21, SAFE_S])
        }
    } else {
        s
    };
    // never really allocate more than 4 MiB per case in the harness: sizes within the limit are capped there
    let s = if s <= m && s > (4 << 20) { 1 + t.below(1 << 20) as u64 } else { s };
    let wmin = size_min_width(s);
    let w = t.range(wmin, 8);
    let present = match t.below(3) {
        0 => 0usize,
        1 => 1,
        _ => (s / 2).min(1 << 16) as usize,
    };
    // bytes after a master header would be parsed as children with costs of their own
    let present = if ty == Some(Ty::Master) { 0 } else { present };
    // placement
    let place = t.below(4);
    let mut bytes = Vec::new();
    let chain: Vec<u64> = e.path.iter().filter_map(|p| if let PathPart::Id(x) = p { Some(*x) } else { None }).collect();
    let mut elem = id_bytes(id);
    elem.extend_from_slice(&ref_vint(s, w).unwrap());
    elem.extend_from_slice(&t.filler(present));
    match place {
        0 => bytes.extend_from_slice(&elem), // at the start of the stream (root or mid-document)
        1 | 2 => {
            // inside known-size parents: with room (declared to hold S) or without
            let mut body = elem.clone();
            for pid in chain.iter().rev() {
                let room = if place == 1 { (id_bytes(id).len() + w) as u64 + s } else { body.len() as u64 };
                let room = room.min((1u64 << 56) - 2);
                let mut h = id_bytes(*pid);
                h.extend_from_slice(&ref_vint(room, size_min_width(room)).unwrap());
                h.extend_from_slice(&body);
                body = h;
            }
            bytes = body;
        }
        _ => {
            for pid in chain.iter() {
                bytes.extend_from_slice(&id_bytes(*pid));
                bytes.extend_from_slice(&[0xFF]);
            }
            bytes.extend_from_slice(&elem);
        }
    }
    let cfg = ReadCfg { tolerate: tol, capacity: cap, max_size: match limit { None => MaxSize::Untouched, Some(x) => MaxSize::Set(Some(x)) }, ..ReadCfg::default() };
    // parents' declared sizes must not exceed the limit themselves, else they are the rejected element — fine, but then the bound is about them
    let capv = cap_value(cap);
    c.label(match place { 0 => "placed_first", 1 => "inside_known_with_room", 2 => "inside_known_without_room", _ => "inside_unknown" });
    c.label_if(limit.is_none(), "limit_untouched");
    c.label_if(s > m, "declared_above_limit");
    c.label_if(s > m && w >= 2, "above_limit_wide_field");
    c.label_if(s <= m && (present as u64) < s, "within_limit_payload_missing");
    c.nontrivial = (s > m && w >= 2) || (s <= m && (present as u64) < s);
    c.key(&(&bytes, limit, cap, tol));
    c.sample_with(|| format!("element {:#x} ({:?}) declaring {} bytes in a {}-byte size field, {} present, placement {}, limit {:?}, capacity {:?}, tolerate {:03b}: stream {}", id, ty, s, w, present, place, limit, cap, tol, hex(&bytes[..bytes.len().min(64)])));
    // next() is called again after a size rejection only when nothing in the stream can be read as a size above 64 MiB: an iterator that
    // wrongly accepts the element on the second call really allocates what it declares, and a failed allocation aborts the process
    let retry = max_declarable_size(&bytes, u64::MAX) <= 64 << 20;
    let r = with_spec!(spec, T => measure::<T>(&bytes, &cfg, true, retry));
    c.checks += 1;
    let ctx = |msg: String| format!("{}\n  element {:#x} type {:?} declared size {} (width {}), {} payload bytes present, placement {}\n  limit {:?} capacity {:?} tolerate {:03b}\n  measured: peak growth {} bytes, largest single allocation {}, largest read request {}, {} items, first error {:?}\n  stream: {}", msg, id, ty, s, w, present, place, limit, cap, tol, r.peak, r.largest, r.max_request, r.items, r.err.as_ref().map(|e| e.short()), hex(&bytes[..bytes.len().min(80)]));
    if let Some(p) = &r.panic {
        return Err(ctx(format!("panic: {}", p)));
    }
    // any declared size in the stream above the limit? (parents may declare s too)
    let is_master = ty == Some(Ty::Master);
    if s > m {
        // must be rejected: no item for this element; since it is the last element, some error must be reported
        match &r.err {
            None => return Err(ctx("an element declaring more than the size limit was not rejected".into())),
            Some(ErrK::InvalidTagSize { .. }) | Some(ErrK::InvalidTagData { .. }) | Some(ErrK::InvalidTagId { .. }) | Some(ErrK::Hierarchy { .. }) | Some(ErrK::OversizedChild { .. }) => {}
            Some(ErrK::Eof { tag_size: Some(n), .. }) if *n as u64 == s => return Err(ctx("the iterator tried to read the payload of an element above the size limit".into())),
            Some(_) => {}
        }
        if r.retries_ok > 0 {
            return Err(ctx(format!("after the size error, calling next() again ({} calls) returned {} item(s): the oversized element is not rejected for good", r.retries, r.retries_ok)));
        }
        c.label_if(r.retries > 0, "next_called_again_after_the_size_error");
        let bound = 2 * capv + 4096;
        if r.peak > bound {
            return Err(ctx(format!("rejecting an oversized element cost {} bytes of heap (> 2·capacity + 4 KiB = {})", r.peak, bound)));
        }
        if r.max_request > capv {
            return Err(ctx(format!("a read of {} bytes was requested although the buffer holds {}", r.max_request, capv)));
        }
    } else if !is_master {
        let bound = 4 * (s as usize).max(capv) + 4096 + present;
        if r.peak > bound {
            return Err(ctx(format!("an element within the limit cost {} bytes of heap (> 4·max(S, capacity) + 4 KiB + payload = {})", r.peak, bound)));
        }
    } else {
        let bound = 2 * capv + 4096 + present;
        if r.peak > bound {
            return Err(ctx(format!("a master header cost {} bytes of heap (> {})", r.peak, bound)));
        }
    }
    Ok(())
}

fn stage_stream(i: &Input, c: &mut Case) -> Result<(), String> {
    if !allocstat::active() {
        return Err("harness: counting allocator not installed".into());
    }
    let mut t = Tape::new(i.tape());
    let m = gen_mixed(&mut t, MixOpts { weights: [2, 2, 6, 2, 4, 1], ..MixOpts::default() });
    let limit = *t.pick(&[16usize, 100, 4096, 1 << 20]);
    let cap = gen_cap(&mut t);
    let tol = if t.chance(1, 2) { 0 } else { t.below(8) as u8 };
    let cfg = ReadCfg { tolerate: tol, capacity: cap, max_size: MaxSize::Set(Some(limit)), ..ReadCfg::default() };
    let capv = cap_value(cap);
    c.label(m.origin.label());
    c.key(&(&m.bytes, limit, cap, tol));
    c.sample_with(|| format!("{} | limit {} cap {:?} tol {:03b}", describe_mixed(&m), limit, cap, tol));
    let r = with_spec!(m.spec, T => measure::<T>(&m.bytes, &cfg, false, false));
    c.checks += 1;
    c.nontrivial = max_declarable_size(&m.bytes, u64::MAX) > limit as u64;
    c.label_if(c.nontrivial, "stream_declares_more_than_limit");
    if let Some(p) = &r.panic {
        return Err(format!("panic: {}\n  input: {}\n  cfg: {}", p, describe_mixed(&m), cfg.render()));
    }
    let slack: usize = std::env::var("EBV_C17_SLACK").ok().and_then(|x| x.parse().ok()).unwrap_or(8 * 1024);
    let bound = 4 * limit.max(capv) + slack;
    if r.peak > bound {
        return Err(format!(
            "parsing cost {} bytes of heap (largest single allocation {}) under size limit {} and capacity {} (bound 4·max(M, cap) + 8 KiB = {})\n  input: {}\n  cfg: {}",
            r.peak, r.largest, limit, capv, bound, describe_mixed(&m), cfg.render()
        ));
    }
    Ok(())
}


/// many elements within the limit, varying sizes: memory must not creep up over a long parse
fn stage_long(i: &Input, c: &mut Case) -> Result<(), String> {
    if !allocstat::active() {
        return Err("harness: counting allocator not installed".into());
    }
    let mut t = Tape::new(i.tape());
    let spec = std::rc::Rc::new(SpecTable::new(vec![
        Elem { id: 0x81, ty: Ty::Master, path: vec![], name: "R".into() },
        Elem { id: 0x82, ty: Ty::Master, path: vec![PathPart::Id(0x81)], name: "M".into() },
        Elem { id: 0x83, ty: Ty::B, path: vec![PathPart::Id(0x81), PathPart::Id(0x82)], name: "B".into() },
        Elem { id: 0x84, ty: Ty::S, path: vec![PathPart::Id(0x81), PathPart::Id(0x82)], name: "S".into() },
        Elem { id: 0x85, ty: Ty::U, path: vec![PathPart::Id(0x81), PathPart::Id(0x82)], name: "U".into() },
    ]));
    crate::dynspec::set_current(spec);
    let limit = *t.pick(&[64usize, 300, 1000, 4000]);
    let cap = *t.pick(&[16usize, 64, 256, 1024]);
    let n = 150 + t.below(450);
    let lo = *t.pick(&[1usize, limit / 4, limit / 2]);
    let mut bytes = vec![0x81, 0xFF, 0x82, 0xFF];
    let mut x = (t.raw() as u32) | 1;
    for k in 0..n {
        x ^= x << 13;
        x ^= x >> 17;
        x ^= x << 5;
        let len = lo + (x as usize) % (limit - lo + 1);
        let id = if k % 7 == 3 { 0x84u8 } else { 0x83 };
        bytes.push(id);
        bytes.extend_from_slice(&ref_vint(len as u64, size_min_width(len as u64)).unwrap());
        bytes.extend(std::iter::repeat(0x41 + (k % 20) as u8).take(len));
        if k % 11 == 0 {
            bytes.extend_from_slice(&[0x85, 0x81, 0x07]);
        }
        if k % 50 == 49 {
            // a new unknown-size M closes the previous one
            bytes.extend_from_slice(&[0x82, 0xFF]);
        }
    }
    let cfg = ReadCfg { capacity: Some(cap), max_size: MaxSize::Set(Some(limit)), ..ReadCfg::default() };
    let r = measure::<crate::dynspec::DynTag>(&bytes, &cfg, true, false);
    c.checks += 1;
    c.nontrivial = true;
    c.key(&(limit, cap, n, lo, x));
    c.label_if(cap < limit, "capacity_below_limit");
    c.sample_with(|| format!("{} elements of {}..={} bytes under unknown-size masters ({} bytes in all), limit {}, capacity {}: peak {} bytes", n, lo, limit, bytes.len(), limit, cap, r.peak));
    if let Some(p) = &r.panic {
        return Err(format!("panic: {}", p));
    }
    if r.err.is_some() || r.items < n {
        return Err(format!("harness: long stream not read completely: {} items, error {:?}", r.items, r.err.as_ref().map(|e| e.short())));
    }
    let bound = 4 * limit.max(cap) + 8 * 1024;
    if r.peak > bound {
        return Err(format!(
            "memory creeps up over a long parse: {} elements of {}..={} bytes (all within the limit {}) with capacity {} cost {} bytes of heap, largest single allocation {} (bound 4·max(M, cap) + 8 KiB = {})",
            n, lo, limit, limit, cap, r.peak, r.largest, bound
        ));
    }
    Ok(())
}

pub const STAGES: &[Stage] = &[
    Stage { name: "header", f: stage_header },
    Stage { name: "stream", f: stage_stream },
    Stage { name: "long_stream", f: stage_long },
    Stage { name: "header_huge", f: stage_header_huge },
];

pub fn run(rc: &mut RunCtx) {
    rc.run_pt(STAGES[0], rc.pick(200_000, 1_000_000), (96, 300));
    rc.run_pt(STAGES[2], rc.pick(16_000, 60_000), (8, 8));
    // only after the passes in which a limit that is not enforced costs megabytes, not the process
    rc.run_pt(STAGES[3], rc.pick(200_000, 1_000_000), (96, 300));
    rc.run_pt(STAGES[1], rc.pick(320_000, 1_500_000), (96, 500));
    for l in ["above_limit_wide_field", "within_limit_payload_missing", "limit_untouched", "inside_known_with_room", "inside_unknown"] {
        rc.require_label("header", l, 20_000);
        rc.require_label("header_huge", l, 20_000);
    }
    rc.require_label("stream", "stream_declares_more_than_limit", 100_000);
    if !rc.quick() {
        rc.run_fuzz(Some(STAGES[1]), 300);
    }
}
