//! C03 — every emitted tag mirrors the bytes at its reported offset; tags tile the stream.

use crate::drive::*;
use crate::mutate::*;
use crate::oracle::*;
use crate::runner::*;
use crate::tape::Tape;
use crate::with_spec;

pub const RULE: &str = "inputs from the reader mix (valid / non-canonical reference encodings / structure-aware mutations / random bytes / adversarial headers / mid-document suffixes) \
× any subset of the three tolerated error classes × random buffered-master subset × capacity {default, 16..64, len}. Oracle, on the successful items up to the first error: the reference header parser \
at the reported offset finds the item's id; the value equals the reference decoding of the payload bytes for the spec's type; each non-End item starts exactly where the previous one's header (masters) or payload ended \
(first one at 0); End items report their Start's offset (0 for implied ancestors); Full items report the master's tag start and their children tile recursively. Stage mirror_deep_nesting: the same oracle on documents nested 28-300 masters deep (gen_deep). Stage offsets_beyond_4GiB: a synthesized stream of 4.06 GiB (1 040 groups of a 4-byte stamp and a 4 MiB payload under one unknown-size master; nothing of it is stored), every item's offset and value against the generator's arithmetic (non-trivial there: items beyond 2^32). Non-trivial: >= 3 items checked incl. >= 1 master; distinct by (input bytes, configuration).";

pub const ASSUMPTIONS: &[&str] = &[
    "statements about bytes after the first error are out of scope",
    "with unknown ids tolerated a 0x00 byte is read as 'id 0' (not an EBML id): tolerated as its own counted class",
    "inputs that could make the iterator allocate > 4 MiB under the chosen size limit are read with a 1 MiB limit instead (counted)",
];

pub fn gen_read_cfg(t: &mut Tape, m: &MixedInput, small_caps: bool) -> ReadCfg {
    let tolerate = if t.chance(1, 2) { 0 } else { t.below(8) as u8 };
    let masters = m.spec.table().masters();
    let mut buffered = Vec::new();
    if !masters.is_empty() && t.chance(1, 2) {
        let n = 1 + t.below(3.min(masters.len()));
        for _ in 0..n {
            let id = masters[t.below(masters.len())];
            if !buffered.contains(&id) {
                buffered.push(id);
            }
        }
        if t.chance(1, 6) {
            buffered = masters.clone();
        }
    }
    let len = m.bytes.len();
    let capacity = match t.weighted(&[5, 3, 2, if small_caps { 3 } else { 0 }]) {
        0 => None,
        1 => Some(*t.pick(&[16usize, 17, 24, 33, 64])),
        2 => Some(len.max(16)),
        _ => Some(*t.pick(&[0usize, 1, 2, 4, 7, 8, 15])),
    };
    let wanted = match t.weighted(&[5, 2, 1]) {
        0 => MaxSize::Untouched,
        1 => MaxSize::Set(Some(*t.pick(&[16usize, 4096, 1 << 20]))),
        _ => MaxSize::Set(None),
    };
    let (max_size, _) = safe_max_size(&m.bytes, wanted);
    ReadCfg { tolerate, buffered, capacity, max_size, eof_close: true }
}

fn stage(i: &Input, c: &mut Case) -> Result<(), String> {
    let mut t = Tape::new(i.tape());
    let m = gen_mixed(&mut t, MixOpts::default());
    mirror(t, m, c)
}

/// the same oracle on documents nested 28 .. 300 masters deep (`gen_deep`)
fn stage_deep(i: &Input, c: &mut Case) -> Result<(), String> {
    let mut t = Tape::new(i.tape());
    let m = gen_deep(&mut t, false);
    c.label("nested_28_to_300_deep");
    mirror(t, m, c)
}

fn mirror(mut t: Tape, m: MixedInput, c: &mut Case) -> Result<(), String> {
    let cfg = gen_read_cfg(&mut t, &m, false);
    // how the source hands the bytes over is no part of the input: a third of the cases are read through short reads of one size
    // (drawn last from the tape so that recorded tapes keep their meaning)
    let chunk = if t.chance(1, 3) { *t.pick(&[1usize, 2, 3, 5, 7, 13, 16, 40, 61]) } else { 0 };
    c.label_if(chunk > 0, "short_reads");
    c.label(m.origin.label());
    c.label_if(cfg.tolerate != 0, "tolerant");
    c.label_if(!cfg.buffered.is_empty(), "buffered_set");
    c.label_if(cfg.capacity.map(|x| x < m.bytes.len()).unwrap_or(false), "after_compaction");
    c.key(&(&m.bytes, cfg.tolerate, &cfg.buffered, cfg.capacity, chunk));
    c.sample_with(|| format!("{} | cfg {}{}", describe_mixed(&m), cfg.render(), if chunk == 0 { String::new() } else { format!(" | reads of {} bytes", chunk) }));
    let obs = if chunk == 0 {
        with_spec!(m.spec, T => read_all::<T>(&m.bytes, &cfg))
    } else {
        let steps: Vec<RStep> = (0..m.bytes.len().div_ceil(chunk)).map(|_| RStep::Chunk(chunk)).collect();
        with_spec!(m.spec, T => read_from::<T, _>(ScriptRead::new(&m.bytes, steps), &cfg, item_bound(m.bytes.len())))
    };
    match obs.last() {
        Some(Obs::Panic(p)) => return Err(format!("iterator panicked: {}\n  input: {}\n  cfg: {}", p, describe_mixed(&m), cfg.render())),
        Some(Obs::Runaway(n)) => return Err(format!("iterator produced more than {} items\n  input: {}", n, describe_mixed(&m))),
        _ => {}
    }
    let st = check_mirror(m.spec.table(), &m.bytes, &obs, cfg.tolerate, cfg.tolerate & TOL_HIER == 0)
        .map_err(|e| format!("{}\n  observed: {}\n  input: {}\n  cfg: {}", e, render_obs(&obs), describe_mixed(&m), cfg.render()))?;
    c.checks += st.checked_items as u64;
    c.nontrivial = st.checked_items >= 3 && st.masters >= 1;
    c.label_if(st.fulls > 0, "has_full");
    c.label_if(st.implied_ends > 0, "implied_ancestor_end");
    c.label_if(st.zero_id_raw > 0, "zero_id_byte_as_raw_tag");
    c.label_if(matches!(obs.last(), Some(Obs::Err(_))), "ends_in_error");
    Ok(())
}

// ---- offsets far into a stream ---------------------------------------------------------------------------------------------------

pub const FAR_BLOB: u64 = 4 << 20;
pub const FAR_HEAD: u64 = 12;
pub const FAR_PERIOD: u64 = 8 + 6 + 5 + FAR_BLOB;

/// A synthesized stream (nothing of it is stored): Body with unknown size, then `n` times Group { Stamp = k, Blob = 4 MiB of zeroes }.
pub struct FarSource {
    pub pos: u64,
    pub total: u64,
    pub max_read: usize,
}

fn far_header(k: u64) -> [u8; 19] {
    let mut h = [0u8; 19];
    h[..4].copy_from_slice(&[0x1f, 0x43, 0xb6, 0x75]);
    h[4..8].copy_from_slice(&(0x1000_0000u32 | (FAR_BLOB as u32 + 11)).to_be_bytes());
    h[8] = 0xe7;
    h[9] = 0x84;
    h[10..14].copy_from_slice(&(k as u32).to_be_bytes());
    h[14] = 0xa3;
    h[15..19].copy_from_slice(&(0x1000_0000u32 | FAR_BLOB as u32).to_be_bytes());
    h
}

impl std::io::Read for FarSource {
    fn read(&mut self, buf: &mut [u8]) -> std::io::Result<usize> {
        const HEAD: [u8; 12] = [0x18, 0x53, 0x80, 0x67, 0x01, 0xff, 0xff, 0xff, 0xff, 0xff, 0xff, 0xff];
        let want = (buf.len().min(self.max_read) as u64).min(self.total - self.pos) as usize;
        let mut done = 0;
        while done < want {
            let p = self.pos;
            let n;
            if p < FAR_HEAD {
                n = (want - done).min((FAR_HEAD - p) as usize);
                buf[done..done + n].copy_from_slice(&HEAD[p as usize..p as usize + n]);
            } else {
                let k = (p - FAR_HEAD) / FAR_PERIOD;
                let r = (p - FAR_HEAD) % FAR_PERIOD;
                if r < 19 {
                    n = (want - done).min((19 - r) as usize);
                    buf[done..done + n].copy_from_slice(&far_header(k)[r as usize..r as usize + n]);
                } else {
                    n = (want - done).min((FAR_PERIOD - r) as usize);
                    buf[done..done + n].fill(0);
                }
            }
            done += n;
            self.pos += n as u64;
        }
        Ok(want)
    }
}

/// Offsets are positions in the stream, however long it is: a stream of more than 4 GiB (1 040 groups with a 4 MiB payload each, under
/// one unknown-size master), every item's offset and value against the arithmetic of the generator.
fn stage_far(i: &Input, c: &mut Case) -> Result<(), String> {
    use crate::model::{Flat, Payload};
    let groups = i.args()[0];
    let max_read = i.args()[1] as usize;
    let total = FAR_HEAD + groups * FAR_PERIOD;
    let src = FarSource { pos: 0, total, max_read };
    let mut rd = Rd::<crate::dynspec::RichSpec, FarSource>::new(src, &ReadCfg::default())?;
    let mut step = |what: &str| -> Result<(Flat, usize), String> {
        match rd.next() {
            Step::Item(f, o) => Ok((f, o)),
            Step::Err(e) => Err(format!("{}: error {}", what, e.short())),
            Step::Done => Err(format!("{}: iteration ended", what)),
            Step::Panic(p) => Err(format!("{}: panic {}", what, p)),
        }
    };
    let expect = |what: String, got: (Flat, usize), want: &Flat, off: u64| -> Result<(), String> {
        if got.1 as u64 != off || &got.0 != want {
            return Err(format!("{}: got {:?} at offset {}, the stream has {:?} at offset {}", what, got.0, got.1, want, off));
        }
        Ok(())
    };
    expect("first item".into(), step("first item")?, &Flat::Start(0x18538067), 0)?;
    let mut far = 0u64;
    for k in 0..groups {
        let base = FAR_HEAD + k * FAR_PERIOD;
        expect(format!("group {}", k), step("group start")?, &Flat::Start(0x1f43b675), base)?;
        expect(format!("stamp of group {}", k), step("stamp")?, &Flat::Leaf(0xe7, Payload::U(k)), base + 8)?;
        let (f, o) = step("blob")?;
        let ok = match &f {
            Flat::Leaf(0xa3, Payload::B(b)) => b.len() as u64 == FAR_BLOB && b.iter().all(|x| *x == 0),
            _ => false,
        };
        if !ok || o as u64 != base + 14 {
            return Err(format!("blob of group {}: got {:?} at offset {}, the stream has 4 MiB of zeroes at offset {}", k, f, o, base + 14));
        }
        expect(format!("end of group {}", k), step("group end")?, &Flat::End(0x1f43b675), base)?;
        c.checks += 4;
        if base + 14 >= 1 << 32 {
            far += 4;
        }
    }
    expect("end of the stream".into(), step("closing End")?, &Flat::End(0x18538067), 0)?;
    match rd.next() {
        Step::Done => {}
        other => return Err(format!("after the closing End: {}", match other { Step::Item(f, o) => format!("{:?}@{}", f, o), Step::Err(e) => e.short(), Step::Panic(p) => p, Step::Done => unreachable!() })),
    }
    c.units = 4 * groups + 2;
    c.nontrivial_units = far;
    c.label_n("items_beyond_4GiB", far);
    c.sample_with(|| format!("{} groups of 4 MiB, {} bytes in all, source reads of at most {} bytes", groups, total, max_read));
    Ok(())
}

pub const STAGES: &[Stage] = &[Stage { name: "mirror", f: stage }, Stage { name: "offsets_beyond_4GiB", f: stage_far }, Stage { name: "mirror_deep_nesting", f: stage_deep }];

pub fn run(rc: &mut RunCtx) {
    rc.run_pt(STAGES[0], rc.pick(960_000, 5_000_000), (96, 500));
    rc.run_pt(STAGES[2], rc.pick(12_000, 100_000), (64, 200));
    for l in ["has_full", "tolerant", "input_mid_document", "input_mutated", "after_compaction", "implied_ancestor_end", "short_reads"] {
        rc.require_label("mirror", l, 10_000);
    }
    // one stream of 4.06 GiB (quick); thorough: a second one delivered in reads of at most 61 441 bytes
    let far: Vec<(u64, u64)> = if rc.quick() { vec![(1040, usize::MAX as u64)] } else { vec![(1040, usize::MAX as u64), (1030, 61_441)] };
    rc.run_indexed(STAGES[1], far.len() as u64, true, &|i| Input::Args(vec![far[i as usize].0, far[i as usize].1]));
    if !rc.quick() {
        rc.run_fuzz(Some(STAGES[0]), 300);
    }
}
