//! C03 — every emitted tag mirrors the bytes at its reported offset; tags tile the stream.

use crate::drive::*;
use crate::mutate::*;
use crate::oracle::*;
use crate::runner::*;
use crate::tape::Tape;
use crate::with_spec;

pub const RULE: &str = "inputs from the reader mix (valid / non-canonical reference encodings / structure-aware mutations / random bytes / adversarial headers / mid-document suffixes) \
× any subset of the three tolerated error classes × random buffered-master subset × capacity {default, 16..64, len}. Oracle, on the successful items up to the first error: the reference header parser \
at the reported offset finds the item's id; the value equals the reference decoding of the payload bytes for the spec's type; each non-End item starts exactly where the previous one's header (masters) or payload ended \
(first one at 0); End items report their Start's offset (0 for implied ancestors); Full items report the master's tag start and their children tile recursively. Non-trivial: >= 3 items checked incl. >= 1 master; distinct by (input bytes, configuration).";

pub const ASSUMPTIONS: &[&str] = &[
    "statements about bytes after the first error are out of scope",
    "with unknown ids tolerated a 0x00 byte is read as 'id 0' (not an EBML id): tolerated as its own counted class",
    "inputs that could make the iterator allocate > 4 MiB under the chosen size limit are read with a 1 MiB limit instead (counted)",
];

pub fn gen_read_cfg(t: &mut Tape, m: &MixedInput, small_caps: bool) -> ReadCfg {
    let tolerate = if t.chance(1, 2) { 0 } else { t.below(8) as u8 };
    let masters = m.spec.table().masters();
    let mut buffered = Vec::new();
    if !masters.is_empty() && t.chance(1, 2) {
        let n = 1 + t.below(3.min(masters.len()));
        for _ in 0..n {
            let id = masters[t.below(masters.len())];
            if !buffered.contains(&id) {
                buffered.push(id);
            }
        }
        if t.chance(1, 6) {
            buffered = masters.clone();
        }
    }
    let len = m.bytes.len();
    let capacity = match t.weighted(&[5, 3, 2, if small_caps { 3 } else { 0 }]) {
        0 => None,
        1 => Some(*t.pick(&[16usize, 17, 24, 33, 64])),
        2 => Some(len.max(16)),
        _ => Some(*t.pick(&[0usize, 1, 2, 4, 7, 8, 15])),
    };
    let wanted = match t.weighted(&[5, 2, 1]) {
        0 => MaxSize::Untouched,
        1 => MaxSize::Set(Some(*t.pick(&[16usize, 4096, 1 << 20]))),
        _ => MaxSize::Set(None),
    };
    let (max_size, _) = safe_max_size(&m.bytes, wanted);
    ReadCfg { tolerate, buffered, capacity, max_size, eof_close: true }
}

fn stage(i: &Input, c: &mut Case) -> Result<(), String> {
    let mut t = Tape::new(i.tape());
    let m = gen_mixed(&mut t, MixOpts::default());
    let cfg = gen_read_cfg(&mut t, &m, false);
    // how the source hands the bytes over is no part of the input: a third of the cases are read through short reads of one size
    // (drawn last from the tape so that recorded tapes keep their meaning)
    let chunk = if t.chance(1, 3) { *t.pick(&[1usize, 2, 3, 5, 7, 13, 16, 40, 61]) } else { 0 };
    c.label_if(chunk > 0, "short_reads");
    c.label(m.origin.label());
    c.label_if(cfg.tolerate != 0, "tolerant");
    c.label_if(!cfg.buffered.is_empty(), "buffered_set");
    c.label_if(cfg.capacity.map(|x| x < m.bytes.len()).unwrap_or(false), "after_compaction");
    c.key(&(&m.bytes, cfg.tolerate, &cfg.buffered, cfg.capacity, chunk));
    c.sample_with(|| format!("{} | cfg {}{}", describe_mixed(&m), cfg.render(), if chunk == 0 { String::new() } else { format!(" | reads of {} bytes", chunk) }));
    let obs = if chunk == 0 {
        with_spec!(m.spec, T => read_all::<T>(&m.bytes, &cfg))
    } else {
        let steps: Vec<RStep> = (0..m.bytes.len().div_ceil(chunk)).map(|_| RStep::Chunk(chunk)).collect();
        with_spec!(m.spec, T => read_from::<T, _>(ScriptRead::new(&m.bytes, steps), &cfg, item_bound(m.bytes.len())))
    };
    match obs.last() {
        Some(Obs::Panic(p)) => return Err(format!("iterator panicked: {}\n  input: {}\n  cfg: {}", p, describe_mixed(&m), cfg.render())),
        Some(Obs::Runaway(n)) => return Err(format!("iterator produced more than {} items\n  input: {}", n, describe_mixed(&m))),
        _ => {}
    }
    let st = check_mirror(m.spec.table(), &m.bytes, &obs, cfg.tolerate, cfg.tolerate & TOL_HIER == 0)
        .map_err(|e| format!("{}\n  observed: {}\n  input: {}\n  cfg: {}", e, render_obs(&obs), describe_mixed(&m), cfg.render()))?;
    c.checks += st.checked_items as u64;
    c.nontrivial = st.checked_items >= 3 && st.masters >= 1;
    c.label_if(st.fulls > 0, "has_full");
    c.label_if(st.implied_ends > 0, "implied_ancestor_end");
    c.label_if(st.zero_id_raw > 0, "zero_id_byte_as_raw_tag");
    c.label_if(matches!(obs.last(), Some(Obs::Err(_))), "ends_in_error");
    Ok(())
}

pub const STAGES: &[Stage] = &[Stage { name: "mirror", f: stage }];

pub fn run(rc: &mut RunCtx) {
    rc.run_pt(STAGES[0], rc.pick(960_000, 5_000_000), (96, 500));
    for l in ["has_full", "tolerant", "input_mid_document", "input_mutated", "after_compaction", "implied_ancestor_end", "short_reads"] {
        rc.require_label("mirror", l, 10_000);
    }
    if !rc.quick() {
        rc.run_fuzz(Some(STAGES[0]), 300);
    }
}
