//! C11 — hierarchy validation equals declared path semantics, in reader and writer alike.

use std::rc::Rc;

use crate::drive::*;
use crate::dynspec::{set_current, DynTag};
use crate::gen::*;
use crate::model::*;
use crate::refmodel::*;
use crate::runner::*;
use crate::tape::Tape;

pub const RULE: &str = "(generated specification with placeholders in trailing and intermediate position, bounds from {None,0,1,2,3}; 1 in 5 cases the macro-derived RichSpec) × chains of open masters built (i) by instantiating a declared path \
with k ∈ {min-1, min, max, max+1, 0} arbitrary masters per placeholder — including the master that follows the placeholder (greedy-matching trap) —, (ii) by deleting / duplicating / swapping one link of such a chain, (iii) at random; depth <= 8 \
× EVERY element of the specification offered under every prefix of the chain. Writer: one TagWriter grows the chain link by link (known-size Start = judged; links the reference rejects are then opened with the unknown-size option, which skips validation, so unreachable chains are explored too; in a third of the steps a whole Full master — acceptable, or refused for its last child — is written before the offers and/or right before the chain grows, so that verdicts depending on history show); \
verdict Ok ⇔ ref_match(path, chain), rejection = UnexpectedTag carrying the id. Reader: the reference encoder puts chain + tag on the wire (known sizes, or unknown sizes in a second run); expected item sequence and the first HierarchyError (with the offending id) are simulated with ref_match on the chain that remains after closing unknown-size masters (ref_closes). \
Stage same_element_after_moves: one writer, one element X accepted under a chain matching its path; then masters are closed (End) and others opened with the unknown-size option (neither is judged) and X is offered again, up to 3 moves: verdict ⇔ ref_match on the chain open now (non-trivial there: an offer after a move that must be refused). Each decision is one evaluation. Non-trivial: the tag's path or the chain involves a placeholder, or the verdict is 'reject'; distinct by (spec, chain, tag, side).";

pub const ASSUMPTIONS: &[&str] = &[
    "reader chains start at a root element so that the position in the document is known from the first element",
    "skipped and counted: (chain, tag) where the tag is a legal child of the open chain and also closes an unknown-size master in it, or where a global element is a declared ancestor/sibling of an open unknown-size master, or where an unknown-size master with a placeholder in its own path meets anything but a global element of a different path (the statement does not say which reading wins; a global element of a different path never closes an unknown-size master, so that case is judged)",
    "raw tags and Master::End are not hierarchy-checked by the writer (documented)",
];

fn sample_payload(ty: Ty) -> Payload {
    match ty {
        Ty::U => Payload::U(1),
        Ty::I => Payload::I(-1),
        Ty::F => Payload::F(1.5f64.to_bits()),
        Ty::S => Payload::S("x".into()),
        Ty::B => Payload::B(vec![1, 2]),
        Ty::Master => unreachable!(),
    }
}

fn offer_flat(e: &Elem) -> Flat {
    if e.ty == Ty::Master {
        Flat::Start(e.id)
    } else {
        Flat::Leaf(e.id, sample_payload(e.ty))
    }
}

fn gen_chain(t: &mut Tape, spec: &SpecTable) -> (Vec<u64>, &'static str) {
    let masters = spec.masters();
    if masters.is_empty() {
        return (vec![], "empty");
    }
    let mode = t.weighted(&[5, 3, 2]);
    let instantiate = |t: &mut Tape| -> Vec<u64> {
        let e = &spec.elems[t.below(spec.elems.len())];
        let mut chain = Vec::new();
        let mut parts = e.path.clone();
        if e.ty == Ty::Master && t.chance(1, 2) {
            parts.push(PathPart::Id(e.id));
        }
        for (pi, p) in parts.iter().enumerate() {
            match p {
                PathPart::Id(x) => chain.push(*x),
                PathPart::Global((min, max)) => {
                    let lo = min.unwrap_or(0) as usize;
                    let hi = max.map(|m| m as usize).unwrap_or(lo + 2);
                    let k = match t.below(5) {
                        0 => lo.saturating_sub(1),
                        1 => lo,
                        2 => hi,
                        3 => hi + 1,
                        _ => 0,
                    };
                    let follower = parts.get(pi + 1).and_then(|q| if let PathPart::Id(x) = q { Some(*x) } else { None });
                    for _ in 0..k.min(5) {
                        let m = match (follower, t.chance(1, 3)) {
                            (Some(f), true) => f,
                            _ => masters[t.below(masters.len())],
                        };
                        chain.push(m);
                    }
                }
            }
        }
        chain
    };
    match mode {
        0 => (instantiate(t), "instantiated"),
        1 => {
            let mut c = instantiate(t);
            if !c.is_empty() {
                let i = t.below(c.len());
                match t.below(3) {
                    0 => {
                        c.remove(i);
                    }
                    1 => {
                        let x = c[i];
                        c.insert(i, x);
                    }
                    _ => {
                        let j = t.below(c.len());
                        c.swap(i, j);
                    }
                }
            }
            (c, "edited")
        }
        _ => {
            let n = t.below(6);
            ((0..n).map(|_| masters[t.below(masters.len())]).collect(), "random")
        }
    }
}

struct Tally {
    units: u64,
    nontrivial: u64,
    aa: u64,
    rr: u64,
    skipped_ambiguous: u64,
    reader: u64,
    reader_unknown: u64,
    history: u64,
}

fn history_write<T: crate::dynspec::Spec>(t: &mut Tape, w: &mut Wr<T>, spec: &SpecTable, open: &[u64], tl: &mut Tally) -> Result<(), String> {
    let ms: Vec<&Elem> = spec.elems.iter().filter(|m| m.ty == Ty::Master && ref_match(&m.path, open)).collect();
    if ms.is_empty() {
        return Ok(());
    }
    let m = ms[t.below(ms.len())];
    let mut inner = open.to_vec();
    inner.push(m.id);
    let n = 1 + t.below(3);
    let mut ch = super::c19::good_children(t, spec, &inner, n);
    let bad = if t.chance(1, 2) { super::c19::bad_child(t, spec, &inner) } else { None };
    let want_ok = bad.is_none();
    if let Some(b) = bad {
        ch.push(b);
    }
    let r = w.apply(&WOp::Write(Flat::Full(m.id, ch.clone()), WOpt::Default));
    tl.units += 1;
    tl.nontrivial += 1;
    tl.history += 1;
    match (&r, want_ok) {
        (Ok(()), true) => tl.aa += 1,
        (Err(WErr::UnexpectedTag { .. }), false) => tl.rr += 1,
        (Ok(()), false) => return Err(format!("writer ACCEPTED the Full master {:#x} under {:x?} although its last child {:?} is not allowed in it", m.id, open, ch.last())),
        (Err(er), _) => return Err(format!("writer: Full master {:#x} with children {:?} under {:x?}: expected {}, got {:?}", m.id, ch, open, if want_ok { "Ok" } else { "UnexpectedTag" }, er)),
    }
    Ok(())
}

fn writer_side<T: crate::dynspec::Spec>(t: &mut Tape, spec: &SpecTable, chain: &[u64], tl: &mut Tally) -> Result<(), String> {
    let mut w = Wr::<T>::new(RecDest::new());
    let mut open: Vec<u64> = Vec::new();
    let chain_has_global = |open: &[u64]| open.iter().any(|id| spec.get(*id).map(|e| e.is_global()).unwrap_or(false));
    for step in 0..=chain.len() {
        // the verdict depends on the open chain and the tag alone, not on what was written (or refused) before: now and then a whole
        // Full master goes first, acceptable or with a child that is not allowed in it; the offers that follow must come out the same
        if t.chance(1, 3) {
            history_write::<T>(t, &mut w, spec, &open, tl)?;
        }
        // offer every element under the current chain
        for e in &spec.elems {
            let want = ref_match(&e.path, &open);
            let f = offer_flat(e);
            let r = w.apply(&WOp::Write(f, WOpt::Default));
            tl.units += 1;
            let nt = e.is_global() || chain_has_global(&open) || !want;
            tl.nontrivial += nt as u64;
            match (&r, want) {
                (Ok(()), true) => {
                    tl.aa += 1;
                    if e.ty == Ty::Master {
                        w.apply(&WOp::Write(Flat::End(e.id), WOpt::Default))
                            .map_err(|er| format!("writer: End right after an accepted Start of {:#x} under {:x?} failed: {:?}", e.id, open, er))?;
                    }
                }
                (Err(WErr::UnexpectedTag { tag_id, .. }), false) if *tag_id == e.id => tl.rr += 1,
                (Err(other), false) => {
                    return Err(format!(
                        "writer: {:#x} (path {}) under open chain {:x?} is rightly rejected, but as {:?} instead of UnexpectedTag carrying its id",
                        e.id,
                        render_path(&e.path),
                        open,
                        other
                    ))
                }
                (Ok(()), false) => {
                    return Err(format!(
                        "writer ACCEPTED {:#x} (declared path {}) under the open chain {:x?}, which the path does not match",
                        e.id,
                        render_path(&e.path),
                        open
                    ))
                }
                (Err(er), true) => {
                    return Err(format!(
                        "writer REJECTED {:#x} (declared path {}) under the open chain {:x?}, which the path matches: {:?}",
                        e.id,
                        render_path(&e.path),
                        open,
                        er
                    ))
                }
            }
        }
        if step == chain.len() {
            break;
        }
        // ... and sometimes right before the chain grows, so that whatever such a write leaves behind meets the next chain
        if t.chance(1, 3) {
            history_write::<T>(t, &mut w, spec, &open, tl)?;
        }
        // grow the chain
        let id = chain[step];
        let Some(e) = spec.get(id) else { break };
        let valid = ref_match(&e.path, &open);
        let as_unknown = !valid || t.chance(1, 4);
        let opt = if as_unknown { WOpt::Unknown } else { WOpt::Default };
        w.apply(&WOp::Write(Flat::Start(id), opt)).map_err(|er| format!("writer: opening link {:#x} ({}) under {:x?} failed: {:?}", id, if as_unknown { "unknown size" } else { "known size" }, open, er))?;
        open.push(id);
    }
    Ok(())
}

/// reference: which open masters does `x` end? index of the outermost one, if any
fn ref_ended_start(spec: &SpecTable, open: &[(u64, bool)], x: u64) -> Option<usize> {
    let first = open.iter().rposition(|(_, unknown)| !unknown).map(|i| i + 1).unwrap_or(0);
    (first..open.len()).find(|&i| ref_closes(spec, open[i].0, x))
}

fn ambiguous(spec: &SpecTable, open: &[(u64, bool)], x: u64) -> bool {
    let Some(xe) = spec.get(x) else { return false };
    let first = open.iter().rposition(|(_, unknown)| !unknown).map(|i| i + 1).unwrap_or(0);
    let ids: Vec<u64> = open.iter().map(|o| o.0).collect();
    for i in first..open.len() {
        let me = spec.get(open[i].0).unwrap();
        // a global element that is a declared ancestor / sibling of the open unknown-size master
        if xe.is_global() && (xe.path == me.path || me.path.iter().any(|p| matches!(p, PathPart::Id(y) if *y == x))) {
            return true;
        }
        // a master with a placeholder path open with unknown size: 'sibling' is not well defined — except towards a global element
        // with a different declared path, which never closes an unknown-size master whatever that master's path looks like
        if me.is_global() && !(xe.is_global() && xe.path != me.path) {
            return true;
        }
    }
    // legal child of the whole open chain AND closes something
    if ref_ended_start(spec, open, x).is_some() && ref_match(&xe.path, &ids) {
        return true;
    }
    false
}

fn reader_side<T: crate::dynspec::Spec>(t: &mut Tape, spec: &SpecTable, chain: &[u64], tl: &mut Tally) -> Result<(), String> {
    if chain.is_empty() || !spec.get(chain[0]).map(|e| e.is_root()).unwrap_or(false) {
        return Ok(());
    }
    let unknown_run = t.chance(1, 2);
    let flags: Vec<bool> = chain.iter().map(|_| unknown_run && t.chance(1, 2)).collect();
    let widths: Vec<u8> = chain.iter().map(|_| 1 + t.below(8) as u8).collect();
    for e in &spec.elems {
        // simulate with reference semantics
        let mut open: Vec<(u64, bool)> = Vec::new();
        let mut want: Vec<Flat> = Vec::new();
        let mut want_err: Option<u64> = None;
        let mut skip = false;
        let seq: Vec<(u64, bool, bool)> = chain.iter().enumerate().map(|(k, id)| (*id, true, flags[k])).chain(std::iter::once((e.id, e.ty == Ty::Master, false))).collect();
        for (k, (id, is_master, unknown)) in seq.iter().enumerate() {
            let el = spec.get(*id).unwrap();
            if k > 0 && ambiguous(spec, &open, *id) {
                skip = true;
                break;
            }
            let cut = if k == 0 { None } else { ref_ended_start(spec, &open, *id) };
            let remaining: Vec<u64> = open[..cut.unwrap_or(open.len())].iter().map(|o| o.0).collect();
            if k > 0 && !ref_match(&el.path, &remaining) {
                want_err = Some(*id);
                break;
            }
            if let Some(c) = cut {
                for (oid, _) in open.drain(c..).rev() {
                    want.push(Flat::End(oid));
                }
            }
            if *is_master {
                want.push(Flat::Start(*id));
                open.push((*id, *unknown));
            } else {
                want.push(Flat::Leaf(*id, sample_payload(el.ty)));
            }
        }
        if skip {
            tl.skipped_ambiguous += 1;
            continue;
        }
        if want_err.is_none() {
            for (oid, _) in open.iter().rev() {
                want.push(Flat::End(*oid));
            }
        }
        // put it on the wire: linear nesting
        let mut node = if e.ty == Ty::Master { Node::master(e.id, vec![]) } else { Node::leaf(e.id, sample_payload(e.ty)) };
        for k in (0..chain.len()).rev() {
            let mut m = Node::master(chain[k], vec![node]);
            if flags[k] {
                m.enc.unknown = true;
                m.enc.size_w = widths[k];
            }
            node = m;
        }
        let (bytes, _) = ref_encode(&[node]);
        let obs = read_all::<T>(&bytes, &ReadCfg::strict());
        tl.units += 1;
        tl.reader += 1;
        tl.reader_unknown += flags.iter().any(|f| *f) as u64;
        let chain_global = chain.iter().any(|id| spec.get(*id).map(|x| x.is_global()).unwrap_or(false));
        tl.nontrivial += (e.is_global() || chain_global || want_err.is_some()) as u64;
        let got_items = items_of(&obs);
        let got_err = first_err(&obs);
        let describe = || format!("chain {:x?} (unknown-size flags {:?}) + tag {:#x} (path {}) | bytes {} | observed {}", chain, flags, e.id, render_path(&e.path), hex(&bytes), render_obs(&obs));
        match (want_err, got_err) {
            (None, None) => {
                tl.aa += 1;
                if got_items != want {
                    return Err(format!("reader: accepted sequence differs from the reference simulation: expected {:?}\n  {}", want, describe()));
                }
            }
            (Some(id), Some(Obs::Err(ErrK::Hierarchy { found, .. }))) if *found == id => {
                tl.rr += 1;
                if got_items != want {
                    return Err(format!("reader: items before the HierarchyError differ from the reference: expected {:?}\n  {}", want, describe()));
                }
            }
            (None, Some(er)) => return Err(format!("reader REJECTED a chain every link of which matches its declared path: {}\n  {}", er.short(), describe())),
            (Some(id), None) => return Err(format!("reader ACCEPTED the sequence although {:#x} does not match the chain open at that point\n  {}", id, describe())),
            (Some(id), Some(er)) => return Err(format!("reader: expected HierarchyError for {:#x}, got {}\n  {}", id, er.short(), describe())),
        }
    }
    Ok(())
}

fn stage(i: &Input, c: &mut Case) -> Result<(), String> {
    let mut t = Tape::new(i.tape());
    let rich = t.chance(1, 5);
    let spec: Rc<SpecTable> = if rich {
        crate::gen::rich()
    } else {
        let s = Rc::new(gen_spec(&mut t, SpecOpts { max_elems: 16, ..SpecOpts::default() }));
        set_current(s.clone());
        s
    };
    let mut tl = Tally { units: 0, nontrivial: 0, aa: 0, rr: 0, skipped_ambiguous: 0, reader: 0, reader_unknown: 0, history: 0 };
    let nchains = 5;
    let mut chains = Vec::new();
    for _ in 0..nchains {
        let (chain, kind) = gen_chain(&mut t, &spec);
        let chain: Vec<u64> = chain.into_iter().take(8).collect();
        c.label(match kind {
            "instantiated" => "chain_instantiated",
            "edited" => "chain_edited",
            "random" => "chain_random",
            _ => "chain_empty",
        });
        if rich {
            writer_side::<crate::dynspec::RichSpec>(&mut t, &spec, &chain, &mut tl)?;
            reader_side::<crate::dynspec::RichSpec>(&mut t, &spec, &chain, &mut tl)?;
        } else {
            writer_side::<DynTag>(&mut t, &spec, &chain, &mut tl)?;
            reader_side::<DynTag>(&mut t, &spec, &chain, &mut tl)?;
        }
        chains.push(chain);
    }
    c.units = tl.units.max(1);
    c.nontrivial_units = tl.nontrivial;
    c.checks = tl.units;
    c.label_n("verdict_accept_accept", tl.aa);
    c.label_n("verdict_reject_reject", tl.rr);
    c.label_n("reader_decisions", tl.reader);
    c.label_n("reader_decisions_with_unknown_size_chain", tl.reader_unknown);
    c.label_n("writer_decisions", tl.units - tl.reader);
    c.label_n("writer_full_master_before_the_offers", tl.history);
    for _ in 0..tl.skipped_ambiguous {
        c.exclude("tag_both_child_and_closer_or_global_ancestor_of_unknown_master");
    }
    c.key(&(spec.elems.clone(), &chains));
    c.sample_with(|| format!("spec {} | chains {:x?}", crate::props::common::spec_brief(&spec), chains));
    Ok(())
}

/// One writer, one element X, several chains in a row: X is accepted under a chain that matches its path; then some of the open masters
/// are closed (End tags are not judged) and others opened with the unknown-size option (not judged either), so that nothing the writer
/// validates lies between the accepted X and the next offer of X under the new chain.  A verdict that is remembered rather than derived
/// from the chain that is open now shows here and nowhere else.
fn moves<T: crate::dynspec::Spec>(t: &mut Tape, spec: &SpecTable, tl: &mut Tally, log: &mut Vec<String>) -> Result<(), String> {
    let masters = spec.masters();
    if masters.is_empty() {
        return Ok(());
    }
    let x = &spec.elems[t.below(spec.elems.len())];
    // a chain that matches X's path: placeholders filled with min..min+2 masters
    let mut a: Vec<u64> = Vec::new();
    for (pi, p) in x.path.iter().enumerate() {
        match p {
            PathPart::Id(i) => a.push(*i),
            PathPart::Global((min, max)) => {
                let lo = min.unwrap_or(0) as usize;
                let hi = max.map(|m| m as usize).unwrap_or(lo + 2).max(lo);
                let k = lo + t.below((hi - lo).min(2) + 1);
                let follower = x.path.get(pi + 1).and_then(|q| if let PathPart::Id(y) = q { Some(*y) } else { None });
                for _ in 0..k {
                    let m = masters[t.below(masters.len())];
                    a.push(if Some(m) == follower { masters[0] } else { m });
                }
            }
        }
    }
    if !ref_match(&x.path, &a) {
        tl.skipped_ambiguous += 1;
        return Ok(());
    }
    let mut w = Wr::<T>::new(RecDest::new());
    let mut open: Vec<u64> = Vec::new();
    for &id in &a {
        let valid = spec.get(id).map(|e| ref_match(&e.path, &open)).unwrap_or(false);
        let opt = if !valid || t.chance(1, 3) { WOpt::Unknown } else { WOpt::Default };
        w.apply(&WOp::Write(Flat::Start(id), opt)).map_err(|er| format!("writer: opening link {:#x} under {:x?} failed: {:?}", id, open, er))?;
        open.push(id);
    }
    let rounds = 1 + t.below(3);
    for round in 0..=rounds {
        if round > 0 {
            // close some, open others without validation
            let j = t.below(open.len() + 1);
            let mut closed = Vec::new();
            for _ in 0..j {
                let id = open.pop().unwrap();
                w.apply(&WOp::Write(Flat::End(id), WOpt::Default)).map_err(|er| format!("writer: End of {:#x} failed: {:?} (history {})", id, er, log.join(" ")))?;
                closed.push(id);
            }
            closed.reverse();
            // the chain to reopen: what was closed, with one link replaced / removed / doubled, or the innermost link kept below a new one
            let mut re = closed.clone();
            if !re.is_empty() {
                let i = t.below(re.len());
                match t.below(5) {
                    0 => re[i] = masters[t.below(masters.len())],
                    1 => {
                        re.remove(i);
                    }
                    2 => {
                        let y = re[i];
                        re.insert(i, y);
                    }
                    3 => {
                        // same innermost master, same depth, different ancestor
                        if re.len() >= 2 {
                            let k = t.below(re.len() - 1);
                            re[k] = masters[t.below(masters.len())];
                        }
                    }
                    _ => {}
                }
            } else if t.chance(1, 2) {
                re.push(masters[t.below(masters.len())]);
            }
            for &id in re.iter().take(8usize.saturating_sub(open.len())) {
                w.apply(&WOp::Write(Flat::Start(id), WOpt::Unknown)).map_err(|er| format!("writer: opening {:#x} with unknown size under {:x?} failed: {:?}", id, open, er))?;
                open.push(id);
            }
            log.push(format!("close{:x?} open{:x?}", closed, re));
        }
        let want = ref_match(&x.path, &open);
        let r = w.apply(&WOp::Write(offer_flat(x), WOpt::Default));
        tl.units += 1;
        tl.history += (round > 0) as u64;
        tl.nontrivial += (round > 0 && !want) as u64;
        log.push(format!("offer {:#x} under {:x?} -> {}", x.id, open, if r.is_ok() { "Ok" } else { "Err" }));
        match (&r, want) {
            (Ok(()), true) => {
                tl.aa += 1;
                if x.ty == Ty::Master {
                    w.apply(&WOp::Write(Flat::End(x.id), WOpt::Default)).map_err(|er| format!("writer: End right after an accepted Start of {:#x} failed: {:?}", x.id, er))?;
                }
            }
            (Err(WErr::UnexpectedTag { tag_id, .. }), false) if *tag_id == x.id => tl.rr += 1,
            (Ok(()), false) => {
                return Err(format!(
                    "writer ACCEPTED {:#x} (declared path {}) under the open chain {:x?}, which the path does not match, after it had accepted it under another chain\n  history: {}",
                    x.id,
                    render_path(&x.path),
                    open,
                    log.join(" ; ")
                ))
            }
            (Err(er), _) => {
                return Err(format!(
                    "writer: {:#x} (declared path {}) under the open chain {:x?}: expected {}, got {:?}\n  history: {}",
                    x.id,
                    render_path(&x.path),
                    open,
                    if want { "Ok" } else { "UnexpectedTag carrying its id" },
                    er,
                    log.join(" ; ")
                ))
            }
        }
    }
    Ok(())
}

fn stage_moves(i: &Input, c: &mut Case) -> Result<(), String> {
    let mut t = Tape::new(i.tape());
    let rich = t.chance(1, 5);
    let spec: Rc<SpecTable> = if rich {
        crate::gen::rich()
    } else {
        let s = Rc::new(gen_spec(&mut t, SpecOpts { max_elems: 16, ..SpecOpts::default() }));
        set_current(s.clone());
        s
    };
    let mut tl = Tally { units: 0, nontrivial: 0, aa: 0, rr: 0, skipped_ambiguous: 0, reader: 0, reader_unknown: 0, history: 0 };
    let mut logs = Vec::new();
    for _ in 0..6 {
        let mut log = Vec::new();
        if rich {
            moves::<crate::dynspec::RichSpec>(&mut t, &spec, &mut tl, &mut log)?;
        } else {
            moves::<DynTag>(&mut t, &spec, &mut tl, &mut log)?;
        }
        logs.push(log.join(" ; "));
    }
    c.units = tl.units.max(1);
    c.nontrivial_units = tl.nontrivial;
    c.checks = tl.units;
    c.label_n("offers_after_a_move", tl.history);
    c.label_n("offers_after_a_move_that_must_be_refused", tl.nontrivial);
    c.label_n("verdict_accept_accept", tl.aa);
    c.label_n("verdict_reject_reject", tl.rr);
    c.label_if(rich, "macro_derived_spec");
    c.key(&(spec.elems.clone(), &logs));
    c.sample_with(|| format!("spec {} | {}", crate::props::common::spec_brief(&spec), logs.join(" || ")));
    Ok(())
}

pub const STAGES: &[Stage] = &[Stage { name: "decisions", f: stage }, Stage { name: "same_element_after_moves", f: stage_moves }];

pub fn run(rc: &mut RunCtx) {
    rc.run_pt(STAGES[0], rc.pick(48_000, 250_000), (128, 500));
    rc.require_label("decisions", "verdict_accept_accept", 20_000);
    rc.require_label("decisions", "verdict_reject_reject", 200_000);
    rc.require_label("decisions", "reader_decisions", 50_000);
    rc.require_label("decisions", "reader_decisions_with_unknown_size_chain", 10_000);
    rc.run_pt(STAGES[1], rc.pick(60_000, 400_000), (128, 500));
    rc.require_label("same_element_after_moves", "offers_after_a_move_that_must_be_refused", 20_000);
    if !rc.quick() {
        rc.run_fuzz(Some(STAGES[0]), 300);
    }
}
