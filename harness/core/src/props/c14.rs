//! C14 — recovery after inserted junk resumes at the next tag and loses nothing else.

use crate::drive::*;
use crate::gen::*;
use crate::model::*;
use crate::props::common::*;
use crate::refmodel::*;
use crate::runner::*;
use crate::tape::Tape;
use crate::with_spec;

pub const RULE: &str = "(specification, valid document with known-size masters only, junk run of 1-12 bytes (one in five: 13-50; one in six all zero bytes, another sixth ending in a run of them) drawn from the byte values that are not the first byte of any id of the specification, 0x00 included) \
× one buffer capacity from {default, 16, 17, 24, 32, 64, len}, one source (slice, or reads of 1-47 bytes) and one tolerance subset without InvalidTagIds (strict in half of the cases) × EVERY position between two consecutive tags as insertion point (exhaustive per document: after a leaf, after a master header, after the last child of a master when a sibling follows) + one junk run at a random non-boundary position. \
From the reference encoder's layout the harness decides whether the precondition holds (the tag following the junk still fits every enclosing known-size master after the shift). Precondition true: items before the junk equal the undamaged parse (same offsets), \
exactly one error, try_recover() is Ok, the remaining items equal the rest of the undamaged parse (non-End offsets shifted by the junk length, Ends of masters opened before the junk unchanged), then None. \
Every case: try_recover never panics, fails only with UnexpectedEOF / ReadError, never moves backwards. One case in four reads (damaged and undamaged alike) with end-of-stream closing off. One evaluation per (document, insertion point). Non-trivial: precondition true with the following tag at depth >= 2; distinct by (document, position, junk).";

pub const ASSUMPTIONS: &[&str] = &[
    "junk bytes are chosen so that no junk position can begin a specification-valid tag whatever follows (their value is not the first byte of any declared id)",
    "the kind of the single error reported at the junk is not fixed by the statement (InvalidTagId / InvalidTagData / UnexpectedEOF all occur)",
];

fn stage(i: &Input, c: &mut Case) -> Result<(), String> {
    let mut t = Tape::new(i.tape());
    let to = TreeOpts { max_nodes: 26, max_children: 5, pay: PayOpts { big_left: 0, huge: false, max_small: 14 }, deep: t.chance(2, 3), ..TreeOpts::default() };
    let d = gen_doc(&mut t, SpecOpts::default(), to, EncOpts { widths: true, unknown: false, full: false, noncanonical: false });
    let spec = d.spec.table().clone();
    let (bytes, lay) = ref_encode(&d.forest);
    // allowed junk byte values
    let mut first = [false; 256];
    for e in &spec.elems {
        first[id_bytes(e.id)[0] as usize] = true;
    }
    let allowed: Vec<u8> = (0..=255u8).filter(|b| !first[*b as usize]).collect();
    // mostly short runs; one in five is long enough (13-50 bytes) to outlast the 16-byte header look-ahead and a 16-byte buffer, and
    // one in six consists of zero bytes only (a zero byte can never start an id) or ends in a run of them
    let k = if t.chance(1, 5) { 13 + t.below(38) } else { 1 + t.below(12) };
    let zeros = t.chance(1, 6);
    let zero_tail = if zeros { 0 } else if t.chance(1, 6) { 1 + t.below(k) } else { 0 };
    let junk: Vec<u8> = (0..k).map(|j| if zeros || j >= k - zero_tail { 0 } else if t.chance(1, 5) { 0 } else { allowed[t.below(allowed.len())] }).collect();
    let rand_pos = t.below(bytes.len().max(1));
    let capacity = match t.weighted(&[4, 4, 1]) {
        0 => None,
        1 => Some(*t.pick(&[16usize, 17, 24, 32, 64])),
        _ => Some(bytes.len().max(16)),
    };
    let chunk = match t.weighted(&[4, 3, 2]) {
        0 => 0usize,
        1 => 1 + t.below(7),
        _ => 8 + t.below(40),
    };
    // what the reader is told to tolerate is no part of the statement: junk stays junk as long as invalid ids are not tolerated, and
    // recovery must lose nothing under any of those configurations (drawn last so that recorded tapes keep their meaning)
    let tolerate: u8 = match t.weighted(&[3, 1, 1, 1]) {
        0 => 0,
        1 => TOL_HIER,
        2 => TOL_OVER,
        _ => TOL_HIER | TOL_OVER,
    };
    // end-of-stream closing off (a source that may deliver more later) must not change what recovery finds: only the Ends that closing
    // would have added at the very end are missing, in the damaged and in the undamaged reading alike
    let eof_close = !t.chance(1, 4);
    c.label_if(!eof_close, "eof_closing_off");
    c.label_if(tolerate != 0, "tolerant_configuration");
    c.label_if(capacity.is_some(), "small_capacity");
    c.label_if(k >= 16, "junk_of_16_bytes_or_more");
    c.label_if(zeros || zero_tail > 0, "junk_ends_in_zero_bytes");
    c.label_if(chunk > 0, "chunked_source");
    c.label(if d.spec.is_rich() { "spec_macro_derived" } else { "spec_generated" });
    c.key(&(&bytes, &junk));
    c.sample_with(|| format!("{} | junk {} inserted at every tag boundary of the {}-byte encoding", describe_doc(&d), hex(&junk), bytes.len()));
    let mut units = 0u64;
    let (mut n_true, mut n_false, mut n_deep) = (0u64, 0u64, 0u64);
    with_spec!(d.spec, T => {
        let u = read_all::<T>(&bytes, &ReadCfg { eof_close, ..ReadCfg::strict() });
        if first_err(&u).is_some() {
            return Err(format!("harness/C01: the undamaged document does not read cleanly: {}\n  {}", render_obs(&u), describe_doc(&d)));
        }
        let u_items: Vec<(Flat, usize)> = u.iter().map(|o| if let Obs::Item(f, off) = o { (f.clone(), *off) } else { unreachable!() }).collect();
        let mut points: Vec<(usize, Option<usize>)> = (1..lay.len()).map(|ix| (lay[ix].tag_start, Some(ix))).collect();
        points.push((rand_pos, None));
        for (p, elem) in points {
            let mut dmg = bytes[..p].to_vec();
            dmg.extend_from_slice(&junk);
            dmg.extend_from_slice(&bytes[p..]);
            units += 1;
            // precondition from the layout
            let pre = match elem {
                None => false,
                Some(ix) => {
                    let end = lay[ix].payload_end + k;
                    let mut ok = true;
                    let mut cur = lay[ix].parent;
                    while let Some(a) = cur {
                        if end > lay[a].payload_end {
                            ok = false;
                        }
                        cur = lay[a].parent;
                    }
                    ok
                }
            };
            let ctx = |m: String, hist: &Vec<String>| format!("{}\n  junk {} inserted at offset {} (precondition {})\n  history: {}\n  undamaged: {}\n  doc: {}", m, hex(&junk), p, pre, hist.join(", "), render_obs(&u), render_forest(&d.forest));
            let cfg = ReadCfg { max_size: safe_max_size(&dmg, MaxSize::Untouched).0, capacity, tolerate, eof_close, ..ReadCfg::default() };
            // source: one slice, or the damaged stream handed out in small reads (so that the scan has to refill the buffer)
            let steps: Vec<RStep> = if chunk == 0 { vec![] } else { (0..dmg.len().div_ceil(chunk)).map(|_| RStep::Chunk(chunk)).collect() };
            let mut rd = match Rd::<T, _>::new(ScriptRead::new(&dmg[..], steps), &cfg) {
                Ok(r) => r,
                Err(e) => return Err(format!("constructor panicked: {}", e)),
            };
            let mut hist: Vec<String> = Vec::new();
            let mut before: Vec<(Flat, usize)> = Vec::new();
            let mut errors_before = 0;
            let mut last_nonend: Option<usize> = None;
            // phase 1: up to the first error
            let mut ended_early = false;
            loop {
                match rd.next() {
                    Step::Item(f, o) => {
                        if !f.is_end() {
                            last_nonend = Some(o);
                        }
                        hist.push(format!("{:?}@{}", f, o));
                        before.push((f, o));
                        if before.len() > item_bound(dmg.len()) {
                            return Err(ctx("runaway before the junk".into(), &hist));
                        }
                    }
                    Step::Err(e) => {
                        hist.push(format!("ERR {}", e.short()));
                        errors_before += 1;
                        break;
                    }
                    Step::Done => {
                        ended_early = true;
                        break;
                    }
                    Step::Panic(m) => return Err(ctx(format!("next() panicked: {}", m), &hist)),
                }
            }
            if pre {
                let ix = elem.unwrap();
                n_true += 1;
                if lay[ix].depth >= 2 {
                    n_deep += 1;
                }
                // index of element ix's item in the undamaged sequence
                let uidx = u_items.iter().position(|(f, off)| !f.is_end() && *off == lay[ix].tag_start).unwrap();
                if ended_early || errors_before != 1 {
                    return Err(ctx("expected exactly one error at the junk".into(), &hist));
                }
                if before != u_items[..uidx] {
                    return Err(ctx(format!("items before the junk differ from the undamaged parse (expected {} items)", uidx), &hist));
                }
                match rd.recover() {
                    Err(m) => return Err(ctx(format!("try_recover() panicked: {}", m), &hist)),
                    Ok(Err(e)) => return Err(ctx(format!("try_recover() failed with {} although the following tag fits", e.short()), &hist)),
                    Ok(Ok(())) => hist.push("recover:ok".into()),
                }
                // an item's reported offset (for an End: its master's start) moves by the junk length iff it lies at or after the junk
                let want: Vec<(Flat, usize)> = u_items[uidx..].iter().map(|(f, off)| (f.clone(), if *off >= p { off + k } else { *off })).collect();
                for (j, w) in want.iter().enumerate() {
                    match rd.next() {
                        Step::Item(f, o) => {
                            hist.push(format!("{:?}@{}", f, o));
                            if (f.clone(), o) != *w {
                                return Err(ctx(format!("after recovery item {} is {:?}@{}, expected {:?}@{}", j, f, o, w.0, w.1), &hist));
                            }
                        }
                        Step::Err(e) => {
                            hist.push(format!("ERR {}", e.short()));
                            return Err(ctx(format!("after recovery: error {} instead of {:?}@{}", e.short(), w.0, w.1), &hist));
                        }
                        Step::Done => return Err(ctx(format!("after recovery: the iterator ended, {} tags of the undamaged document are missing", want.len() - j), &hist)),
                        Step::Panic(m) => return Err(ctx(format!("next() panicked after recovery: {}", m), &hist)),
                    }
                }
                match rd.next() {
                    Step::Done => {}
                    Step::Item(f, o) => return Err(ctx(format!("extra item {:?}@{} after the last tag of the undamaged document", f, o), &hist)),
                    Step::Err(e) => return Err(ctx(format!("extra error {} after the last tag of the undamaged document", e.short()), &hist)),
                    Step::Panic(m) => return Err(ctx(format!("next() panicked: {}", m), &hist)),
                }
                c.checks += want.len() as u64 + before.len() as u64 + 2;
            } else {
                n_false += 1;
                // universal clauses only
                let mut calls = 0;
                let mut pending_floor: Option<usize> = None;
                let mut after_err = errors_before > 0;
                while calls < 4 * item_bound(dmg.len()) {
                    calls += 1;
                    if after_err {
                        after_err = false;
                        match rd.recover() {
                            Err(m) => return Err(ctx(format!("try_recover() panicked: {}", m), &hist)),
                            Ok(Ok(())) => {
                                hist.push("recover:ok".into());
                                pending_floor = last_nonend;
                            }
                            Ok(Err(ErrK::Eof { .. })) => {
                                hist.push("recover:eof".into());
                                break;
                            }
                            Ok(Err(e)) => return Err(ctx(format!("try_recover() failed with {}; only end of input or a source I/O error are allowed", e.short()), &hist)),
                        }
                        continue;
                    }
                    match rd.next() {
                        Step::Item(f, o) => {
                            if !f.is_end() {
                                if let Some(fl) = pending_floor.take() {
                                    if o <= fl {
                                        hist.push(format!("{:?}@{}", f, o));
                                        return Err(ctx(format!("try_recover() moved backwards: first tag after recovery at {}, last tag before at {}", o, fl), &hist));
                                    }
                                }
                                last_nonend = Some(o);
                            }
                            if hist.len() < 80 {
                                hist.push(format!("{:?}@{}", f, o));
                            }
                        }
                        Step::Err(e) => {
                            if hist.len() < 80 {
                                hist.push(format!("ERR {}", e.short()));
                            }
                            after_err = true;
                        }
                        Step::Done => break,
                        Step::Panic(m) => return Err(ctx(format!("next() panicked: {}", m), &hist)),
                    }
                }
                c.checks += calls as u64;
            }
        }
    });
    c.units = units;
    c.nontrivial_units = n_deep;
    c.label_n("pre_true", n_true);
    c.label_n("pre_false", n_false);
    c.label_n("pre_true_depth2plus", n_deep);
    Ok(())
}

pub const STAGES: &[Stage] = &[Stage { name: "junk_at_every_boundary", f: stage }];

pub fn run(rc: &mut RunCtx) {
    rc.run_pt(STAGES[0], rc.pick(48_000, 250_000), (96, 400));
    rc.require_label("junk_at_every_boundary", "pre_true", 300_000);
    rc.require_label("junk_at_every_boundary", "pre_true_depth2plus", 50_000);
    rc.require_label("junk_at_every_boundary", "pre_false", 50_000);
    rc.require_label("junk_at_every_boundary", "small_capacity", 200_000);
    rc.require_label("junk_at_every_boundary", "tolerant_configuration", 200_000);
    rc.require_label("junk_at_every_boundary", "chunked_source", 200_000);
    if !rc.quick() {
        rc.run_fuzz(Some(STAGES[0]), 250);
    }
}
