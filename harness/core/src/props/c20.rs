//! C20 — async iterator yields what the blocking iterator yields, for every poll schedule.

use std::pin::Pin;
use std::task::{Context, Poll};

use ebml_iterable::nonblocking::TagIteratorAsync;
use ebml_iterable::specs::Master;
use futures::io::AsyncRead;
use futures::StreamExt;

use crate::drive::*;
use crate::dynspec::{from_tag, Spec};
use crate::model::*;
use crate::mutate::*;
use crate::runner::*;
use crate::tape::Tape;
use crate::with_spec;

pub const RULE: &str = "(input, partition of the input into async read results, Poll::Pending pattern, buffered-master set): a scripted AsyncRead owned by the harness hands out the bytes in the given partition (never more than the caller's buffer), \
answering Poll::Pending (self-waking) at chosen points, driven on futures::executor::block_on; both `next().await` loops and `into_stream()` are exercised. Stage all_partitions: EVERY composition of a small document (valid / truncated / corrupted, length <= 12 quick / <= 15 thorough) into reads, \
with and without buffered masters. Stage any_partition: the reader mix (valid, non-canonical, mutated, random, adversarial, mid-document; 1 in 12 larger than the 64 KiB transfer buffer) × random partitions (1-byte reads, 1-3, 1-17, up to 300, everything at once) × Pending pattern × buffered sets. \
Oracle: item sequence, last_emitted_tag_offset() after every item and the errors equal those of the blocking TagIterator over the whole slice (any_partition drives both iterators past up to three CorruptedTagData errors — the element is consumed, iteration continues behind it — and compares what follows as well; the other stages stop at the first error); after the end, None is returned again. Non-trivial: partition with >= 2 non-empty reads, or >= 1 Pending; distinct by (input, schedule, buffered set).";

pub const ASSUMPTIONS: &[&str] = &[
    "single-threaded, harness-owned polling: real executors' timing is out of scope by construction",
    "the async adapter has no size-limit setter: inputs in which some header-shaped byte sequence announces more than 4 MiB (under the default 4 GB limit) are skipped for the harness' own safety and counted",
    "a source that reports I/O errors is outside the property's quantifier (C05 covers source errors for the blocking iterator)",
];

#[derive(Clone, Debug, PartialEq, Eq)]
pub enum AStep {
    Chunk(usize),
    Pending,
}

pub struct ScriptAsync<'a> {
    data: &'a [u8],
    pos: usize,
    steps: Vec<AStep>,
    idx: usize,
    left: usize,
    pub reads: usize,
    pub pendings: usize,
}

impl<'a> ScriptAsync<'a> {
    pub fn new(data: &'a [u8], steps: Vec<AStep>) -> Self {
        ScriptAsync { data, pos: 0, steps, idx: 0, left: 0, reads: 0, pendings: 0 }
    }
}

impl<'a> AsyncRead for ScriptAsync<'a> {
    fn poll_read(mut self: Pin<&mut Self>, cx: &mut Context<'_>, buf: &mut [u8]) -> Poll<std::io::Result<usize>> {
        let me = &mut *self;
        loop {
            if me.left == 0 {
                match me.steps.get(me.idx) {
                    Some(AStep::Pending) => {
                        me.idx += 1;
                        me.pendings += 1;
                        cx.waker().wake_by_ref();
                        return Poll::Pending;
                    }
                    Some(AStep::Chunk(n)) => {
                        me.left = *n;
                        me.idx += 1;
                        if *n == 0 {
                            continue;
                        }
                    }
                    None => {
                        let n = buf.len().min(me.data.len() - me.pos);
                        buf[..n].copy_from_slice(&me.data[me.pos..me.pos + n]);
                        me.pos += n;
                        me.reads += 1;
                        return Poll::Ready(Ok(n));
                    }
                }
            }
            let n = buf.len().min(me.left).min(me.data.len() - me.pos);
            if n == 0 {
                me.left = 0;
                if me.pos >= me.data.len() && me.idx >= me.steps.len() {
                    me.reads += 1;
                    return Poll::Ready(Ok(0));
                }
                continue;
            }
            buf[..n].copy_from_slice(&me.data[me.pos..me.pos + n]);
            me.pos += n;
            me.left -= n;
            me.reads += 1;
            return Poll::Ready(Ok(n));
        }
    }
}

/// drive `next().await` to the end (or first error); returns observations and whether a second None followed
pub fn run_async<T: Spec>(bytes: &[u8], steps: Vec<AStep>, buffered: &[u64], bound: usize) -> (Vec<Obs>, bool, usize) {
    run_async_past::<T>(bytes, steps, buffered, bound, 0)
}

/// `past`: keep going after up to that many CorruptedTagData errors (as `read_from_past` does for the blocking iterator)
pub fn run_async_past<T: Spec>(bytes: &[u8], steps: Vec<AStep>, buffered: &[u64], bound: usize, past: usize) -> (Vec<Obs>, bool, usize) {
    let r = guarded(|| {
        futures::executor::block_on(async {
            let tags: Vec<T> = buffered.iter().filter_map(|id| T::get_master_tag(*id, Master::Start)).collect();
            let src = ScriptAsync::new(bytes, steps);
            let mut it = TagIteratorAsync::<_, T>::new(src, &tags);
            let mut out = Vec::new();
            let mut data_errors = 0;
            let mut again_none = false;
            loop {
                match it.next().await {
                    None => {
                        again_none = it.next().await.is_none();
                        break;
                    }
                    Some(Ok(t)) => {
                        let off = it.last_emitted_tag_offset();
                        out.push(Obs::Item(from_tag::<T>(&t), off));
                        if out.len() > bound {
                            out.push(Obs::Runaway(bound));
                            break;
                        }
                    }
                    Some(Err(e)) => {
                        let k = norm_err(e);
                        let go_on = matches!(k, ErrK::TagData { .. }) && data_errors < past;
                        out.push(Obs::Err(k));
                        if !go_on {
                            break;
                        }
                        data_errors += 1;
                    }
                }
            }
            (out, again_none)
        })
    });
    match r {
        Ok((o, a)) => (o, a, 0),
        Err(p) => (vec![Obs::Panic(p)], false, 0),
    }
}

pub fn run_stream<T: Spec>(bytes: &[u8], steps: Vec<AStep>, buffered: &[u64], bound: usize) -> Vec<Obs> {
    run_stream_past::<T>(bytes, steps, buffered, bound, 0)
}

pub fn run_stream_past<T: Spec>(bytes: &[u8], steps: Vec<AStep>, buffered: &[u64], bound: usize, past: usize) -> Vec<Obs> {
    let r = guarded(|| {
        futures::executor::block_on(async {
            let tags: Vec<T> = buffered.iter().filter_map(|id| T::get_master_tag(*id, Master::Start)).collect();
            let src = ScriptAsync::new(bytes, steps);
            let it = TagIteratorAsync::<_, T>::new(src, &tags);
            let mut st = Box::pin(it.into_stream());
            let mut out = Vec::new();
            let mut data_errors = 0;
            while let Some(x) = st.next().await {
                match x {
                    Ok(t) => {
                        out.push(Obs::Item(from_tag::<T>(&t), 0));
                        if out.len() > bound {
                            out.push(Obs::Runaway(bound));
                            break;
                        }
                    }
                    Err(e) => {
                        let k = norm_err(e);
                        let go_on = matches!(k, ErrK::TagData { .. }) && data_errors < past;
                        out.push(Obs::Err(k));
                        if !go_on {
                            break;
                        }
                        data_errors += 1;
                    }
                }
            }
            out
        })
    });
    r.unwrap_or_else(|p| vec![Obs::Panic(p)])
}

/// From the blocking parse (no buffering): for call number j (0-based) the number of input bytes that must have
/// been delivered before it, or None if the call is served from the emission queue.
/// Batch structure: each non-End item is read by one read_next together with the Ends emitted just before it.
pub fn needs_per_call(base: &[Obs], len: usize) -> Vec<usize> {
    // end offset of each non-End item = offset of the next non-End item (tiling, C03) or, for the last, what the parse consumed
    let mut need = Vec::new();
    let items: Vec<(&Flat, usize)> = base.iter().filter_map(|o| if let Obs::Item(f, off) = o { Some((f, *off)) } else { None }).collect();
    let nonend_offsets: Vec<usize> = items.iter().filter(|(f, _)| !f.is_end()).map(|(_, o)| *o).collect();
    let mut k = 0; // index into nonend
    let mut i = 0;
    while i < items.len() {
        // a batch: Ends* then (optionally) one non-End
        let mut j = i;
        while j < items.len() && items[j].0.is_end() {
            j += 1;
        }
        let batch_end = if j < items.len() { j + 1 } else { j };
        let bytes_needed = if j < items.len() {
            // the tag read in this batch must be complete: conservatively everything up to the next tag's start (or the whole input)
            let e = nonend_offsets.get(k + 1).copied().unwrap_or(len);
            k += 1;
            e
        } else {
            len // trailing Ends: produced when the inner iterator sees the true end of input
        };
        for c in i..batch_end {
            need.push(if c == i { bytes_needed } else { 0 });
        }
        i = batch_end;
    }
    // the call after the last item (None) needs everything; an error at the end too
    need.push(len);
    need
}


/// The same for a run WITH buffered masters, derived from the unbuffered parse `u` of the same bytes: a call whose next item
/// is the Start of a buffered master keeps reading (batch after batch) until the matching End has been queued — which happens
/// in the batch that reads the tag FOLLOWING the master (or at end of input).
pub fn needs_per_call_buffered(u: &[Obs], buffered: &[u64], len: usize) -> Option<Vec<usize>> {
    if first_err(u).is_some() {
        return None;
    }
    let items: Vec<(&Flat, usize)> = u.iter().filter_map(|o| if let Obs::Item(f, off) = o { Some((f, *off)) } else { None }).collect();
    let nonend_offsets: Vec<usize> = items.iter().filter(|(f, _)| !f.is_end()).map(|(_, o)| *o).collect();
    // batches: (items, bytes needed)
    let mut batches: Vec<(Vec<&Flat>, usize)> = Vec::new();
    let mut k = 0;
    let mut i = 0;
    while i < items.len() {
        let mut j = i;
        while j < items.len() && items[j].0.is_end() {
            j += 1;
        }
        if j < items.len() {
            let need = nonend_offsets.get(k + 1).copied().unwrap_or(len);
            k += 1;
            batches.push((items[i..=j].iter().map(|x| x.0).collect(), need));
            i = j + 1;
        } else {
            batches.push((items[i..j].iter().map(|x| x.0).collect(), len));
            i = j;
        }
    }
    let mut queue: std::collections::VecDeque<&Flat> = std::collections::VecDeque::new();
    let mut b = 0usize;
    let mut needs = Vec::new();
    loop {
        let mut need = 0usize;
        if queue.is_empty() {
            if b >= batches.len() {
                break;
            }
            queue.extend(batches[b].0.iter().copied());
            need = need.max(batches[b].1);
            b += 1;
        }
        if let Some(Flat::Start(id)) = queue.front().copied() {
            if buffered.contains(id) {
                // read on until the matching End is queued
                let mut pos = 1usize;
                let mut depth = 0usize;
                loop {
                    if pos >= queue.len() {
                        if b >= batches.len() {
                            return None; // never closed (cannot happen with end-of-stream closing)
                        }
                        queue.extend(batches[b].0.iter().copied());
                        need = need.max(batches[b].1);
                        b += 1;
                        continue;
                    }
                    match queue[pos] {
                        Flat::Start(x) if x == id => depth += 1,
                        Flat::End(x) if x == id => {
                            if depth == 0 {
                                break;
                            }
                            depth -= 1;
                        }
                        _ => {}
                    }
                    pos += 1;
                }
                // Start..End collapse into one item
                for _ in 0..pos {
                    queue.pop_front();
                }
            }
        }
        queue.pop_front();
        needs.push(need);
    }
    needs.push(len);
    Some(needs)
}

fn stage(i: &Input, c: &mut Case) -> Result<(), String> {
    let mut t = Tape::new(i.tape());
    let big = t.chance(1, 12);
    let mut mo = MixOpts { weights: [5, 4, 3, 0, 1, 1], ..MixOpts::default() };
    if big {
        mo.tree.pay = crate::gen::PayOpts { big_left: 6, huge: false, max_small: 40 };
        mo.tree.max_nodes = 60;
    }
    let mut m = gen_mixed(&mut t, mo);
    if big {
        // > 64 KiB: repeat the document's top-level elements (still a valid sequence of root elements)
        let unit = m.bytes.clone();
        while m.bytes.len() <= 70_000 && !unit.is_empty() {
            m.bytes.extend_from_slice(&unit);
            if unit.len() < 200 {
                let pad: Vec<u8> = unit.iter().cycle().take(unit.len() * 40).copied().collect();
                m.bytes.extend_from_slice(&pad);
            }
        }
    }
    let len = m.bytes.len();
    let masters = m.spec.table().masters();
    let mut buffered: Vec<u64> = Vec::new();
    if !masters.is_empty() && t.chance(1, 3) {
        for _ in 0..1 + t.below(2) {
            let id = masters[t.below(masters.len())];
            if !buffered.contains(&id) {
                buffered.push(id);
            }
        }
    }
    c.label(m.origin.label());
    c.label_if(big, "input_larger_than_64KiB");
    c.label_if(!buffered.is_empty(), "buffered_set");
    with_spec!(m.spec, T => {
        // The async adapter offers no way to set a size limit. The reference run uses a 1 MiB limit; when that limit never
        // fires, the run under the default limit takes exactly the same path (and cannot allocate more than 1 MiB per tag).
        let cfg = ReadCfg { buffered: buffered.clone(), max_size: MaxSize::Set(Some(1 << 20)), ..ReadCfg::default() };
        let base = read_all::<T>(&m.bytes, &cfg);
        if matches!(base.last(), Some(Obs::Panic(_)) | Some(Obs::Runaway(_))) {
            return Err(format!("blocking iterator: {}", render_obs(&base)));
        }
        if matches!(base.last(), Some(Obs::Err(ErrK::InvalidTagSize { .. }))) {
            c.skipped = true;
            c.exclude("input_declares_more_than_1MiB_and_async_adapter_has_no_limit_setter");
            return Ok(());
        }
        // schedule
        let mut steps: Vec<AStep> = Vec::new();
        let want_multi = t.chance(2, 3);
        let mut nonempty_reads = 1;
        // per-call byte requirements: directly from the parse, or (with buffered masters) simulated from the unbuffered parse
        let need_opt: Option<Vec<usize>> = if !want_multi || len == 0 {
            None
        } else if buffered.is_empty() {
            Some(needs_per_call(&base, len))
        } else {
            let unbuf = read_all::<T>(&m.bytes, &ReadCfg { buffered: vec![], ..cfg.clone() });
            let n = needs_per_call_buffered(&unbuf, &buffered, len);
            // the simulation must reproduce the number of items the buffered parse really emits, else fall back to a single read
            match n {
                Some(v) if v.len() == items_of(&base).len() + 1 => {
                    c.label("multi_read_with_buffered_masters");
                    Some(v)
                }
                _ => None,
            }
        };
        if let Some(need) = need_opt {
            // cumulative delivery b_j >= need_j for the j-th call; the adapter caps each read at 64 KiB
            let mut delivered = 0usize;
            let mut j = 0usize;
            while delivered < len && j < need.len() {
                let must = need[j].max(delivered);
                if must - delivered > 65536 {
                    // cannot be satisfied by one read: this input falls into the open finding's class for every schedule
                    c.skipped = true;
                    c.exclude("open_finding_D14_tag_larger_than_one_async_read");
                    return Ok(());
                }
                let extra = match t.below(4) {
                    0 => 0,
                    1 => t.below(4),
                    2 => t.below(40),
                    _ => len - must,
                };
                let to = (must + extra).min(len).max(delivered);
                let n = (to - delivered).min(65536);
                if n == 0 {
                    // a read that returns nothing more is the end-of-input signal: deliver at least one byte instead, if any is left
                    let n1 = 1.min(len - delivered);
                    steps.push(AStep::Chunk(n1));
                    delivered += n1;
                } else {
                    steps.push(AStep::Chunk(n));
                    delivered += n;
                }
                j += 1;
            }
            if delivered < len {
                // calls ran out before the data did: the remaining calls hit the class -> deliver the rest in the last read instead
                c.skipped = true;
                c.exclude("open_finding_D14_schedule_not_constructible");
                return Ok(());
            }
            nonempty_reads = steps.len();
        } else if len > 65536 {
            // "everything at once" is split by the adapter's 64 KiB buffer: only fine if every call's tag is delivered in time
            let need = needs_per_call(&base, len);
            for (j, nd) in need.iter().enumerate() {
                if *nd > ((j + 1) * 65536).min(len) {
                    c.skipped = true;
                    c.exclude("open_finding_D14_tag_straddles_64KiB_read");
                    return Ok(());
                }
            }
            nonempty_reads = (len + 65535) / 65536;
        }
        // Pending pattern: insert before some reads
        let mut with_pending = Vec::new();
        let pend = t.below(4);
        let mut pendings = 0;
        if steps.is_empty() {
            for _ in 0..pend {
                with_pending.push(AStep::Pending);
                pendings += 1;
            }
        }
        for s in steps {
            if pend > 0 && t.chance(1, 3) {
                with_pending.push(AStep::Pending);
                pendings += 1;
            }
            with_pending.push(s);
        }
        let steps = with_pending;
        c.label_if(nonempty_reads >= 2, "two_or_more_reads");
        c.label_if(pendings > 0, "has_pending");
        c.nontrivial = nonempty_reads >= 2 || pendings > 0;
        c.key(&(&m.bytes, &format!("{:?}", steps), &buffered));
        c.sample_with(|| format!("{} | schedule {:?} | buffered {:x?}", describe_mixed(&m), &steps[..steps.len().min(24)], buffered));
        let (obs, again_none, _) = run_async::<T>(&m.bytes, steps.clone(), &buffered, item_bound(len));
        c.checks += 1;
        let ctx = |msg: String| format!("{}\n  schedule: {:?}\n  buffered: {:x?}\n  async:    {}\n  blocking: {}\n  input: {}", msg, &steps[..steps.len().min(40)], buffered, render_obs(&obs), render_obs(&base), describe_mixed(&m));
        if obs != base {
            return Err(ctx("the async iterator's items / offsets / first error differ from the blocking iterator's".into()));
        }
        if first_err(&base).is_none() && !again_none {
            return Err(ctx("after returning None the async iterator did not return None again".into()));
        }
        // stream adapter: items only
        let so = run_stream::<T>(&m.bytes, steps.clone(), &buffered, item_bound(len));
        c.checks += 1;
        let a = items_of(&so);
        let b = items_of(&base);
        if a != b || first_err(&so).map(|e| e.short()) != first_err(&base).map(|e| e.short()) {
            return Err(ctx(format!("into_stream() yields a different sequence: {}", render_obs(&so))));
        }
        Ok(())
    })
}


// ---------------------------------------------------------------------------------------------
// unrestricted schedules: ANY partition of the input into reads, with Pending polls anywhere

fn gen_async_steps(t: &mut Tape, len: usize) -> (Vec<AStep>, usize, usize) {
    let mut steps = Vec::new();
    let mut left = len;
    let mode = t.below(5);
    let mut reads = 0;
    let mut pend = 0;
    while left > 0 && steps.len() < 6000 {
        if t.chance(1, 6) {
            steps.push(AStep::Pending);
            pend += 1;
        }
        let n = match mode {
            0 => 1,
            1 => 1 + t.below(3),
            2 => 1 + t.below(17),
            3 => 1 + t.below(left.min(300)),
            _ => left,
        }
        .min(left);
        steps.push(AStep::Chunk(n));
        reads += 1;
        left -= n;
        if t.exhausted() && mode >= 2 {
            break;
        }
    }
    if t.chance(1, 4) {
        steps.push(AStep::Pending);
        pend += 1;
    }
    (steps, reads, pend)
}

fn stage_any(i: &Input, c: &mut Case) -> Result<(), String> {
    let mut t = Tape::new(i.tape());
    // three quarters of the cases use specifications whose ids have at most 3 bytes: a 4-byte id following a 1-byte id reads as a
    // header declaring hundreds of MiB, which the harness' safety scan (below) must then exclude
    let mut mo = MixOpts { weights: [5, 4, 4, 1, 1, 2], ..MixOpts::default() };
    if t.chance(3, 4) {
        mo.spec.max_id_len = 3;
    }
    let big = t.chance(1, 12);
    if big {
        mo.tree.pay = crate::gen::PayOpts { big_left: 6, huge: false, max_small: 40 };
        mo.tree.max_nodes = 60;
    }
    let mut m = gen_mixed(&mut t, mo);
    if big {
        // > 64 KiB (larger than the adapter's transfer buffer): the document's bytes repeated
        let unit = m.bytes.clone();
        while m.bytes.len() <= 70_000 && !unit.is_empty() {
            m.bytes.extend_from_slice(&unit);
            if unit.len() < 200 {
                let pad: Vec<u8> = unit.iter().cycle().take(unit.len() * 40).copied().collect();
                m.bytes.extend_from_slice(&pad);
            }
        }
    }
    let len = m.bytes.len();
    let masters = m.spec.table().masters();
    let mut buffered: Vec<u64> = Vec::new();
    if !masters.is_empty() && t.chance(1, 3) {
        for _ in 0..1 + t.below(3) {
            let id = masters[t.below(masters.len())];
            if !buffered.contains(&id) {
                buffered.push(id);
            }
        }
    }
    let (steps, reads, pend) = gen_async_steps(&mut t, len);
    c.label_if(big, "input_larger_than_64KiB");
    c.label(m.origin.label());
    c.label_if(!buffered.is_empty(), "buffered_set");
    c.label_if(reads >= 2, "two_or_more_reads");
    c.label_if(pend > 0, "has_pending");
    c.nontrivial = reads >= 2 || pend > 0;
    c.key(&(&m.bytes, &format!("{:?}", steps), &buffered));
    c.sample_with(|| format!("{} | schedule {:?} | buffered {:x?}", describe_mixed(&m), &steps[..steps.len().min(24)], buffered));
    with_spec!(m.spec, T => {
        let cfg = ReadCfg { buffered: buffered.clone(), max_size: MaxSize::Set(Some(1 << 20)), ..ReadCfg::default() };
        // both iterators are driven past undecodable payloads (the element is consumed, iteration goes on behind it): what comes after
        // such an error belongs to "the item sequence" as well
        const PAST: usize = 3;
        let base = read_from_past::<T, &[u8]>(&m.bytes[..], &cfg, item_bound(len), PAST);
        if matches!(base.last(), Some(Obs::Panic(_)) | Some(Obs::Runaway(_))) {
            return Err(format!("blocking iterator: {}", render_obs(&base)));
        }
        if base.iter().any(|o| matches!(o, Obs::Err(ErrK::InvalidTagSize { .. }))) {
            c.skipped = true;
            c.exclude("input_declares_more_than_1MiB_and_async_adapter_has_no_limit_setter");
            return Ok(());
        }
        c.label_if(base.iter().any(|o| matches!(o, Obs::Err(ErrK::TagData { .. }))) && !matches!(base.last(), Some(Obs::Err(ErrK::TagData { .. }))), "items_after_an_undecodable_payload");
        // a straddling schedule may make the inner iterator look at a size field of a tag that the complete parse never reaches
        // the same way; keep the harness safe: no offset of the input may announce more than 4 MiB under the default limit
        if max_declarable_size(&m.bytes, 4_000_000_000) > SAFE_ALLOC {
            c.skipped = true;
            c.exclude("some_offset_announces_multi_MiB_size_under_default_limit");
            return Ok(());
        }
        let (obs, again_none, _) = run_async_past::<T>(&m.bytes, steps.clone(), &buffered, item_bound(len), PAST);
        c.checks += 1;
        let ctx = |msg: String| format!("{}\n  schedule: {:?}\n  buffered: {:x?}\n  async:    {}\n  blocking: {}\n  input: {}", msg, &steps[..steps.len().min(40)], buffered, render_obs(&obs), render_obs(&base), describe_mixed(&m));
        if obs != base {
            return Err(ctx("the async iterator's items / offsets / errors differ from the blocking iterator's".into()));
        }
        if !matches!(base.last(), Some(Obs::Err(_))) && !again_none {
            return Err(ctx("after returning None the async iterator did not return None again".into()));
        }
        let so = run_stream_past::<T>(&m.bytes, steps.clone(), &buffered, item_bound(len), PAST);
        c.checks += 1;
        let plain = |v: &[Obs]| -> Vec<String> { v.iter().map(|o| match o { Obs::Item(f, _) => format!("{:?}", f), other => other.short() }).collect() };
        if plain(&so) != plain(&base) {
            return Err(ctx(format!("into_stream() yields a different sequence: {}", render_obs(&so))));
        }
        Ok(())
    })
}

/// every composition of a small document into async reads (2^(len-1) schedules), with and without a Pending before each read
fn stage_all_partitions(i: &Input, c: &mut Case) -> Result<(), String> {
    let a = i.args();
    let (seed, k, max_len) = (a[0], a[1], a[2] as usize);
    let (spec, bytes, desc) = super::c04::small_doc(seed, k, max_len);
    let len = bytes.len();
    let masters = spec.table().masters();
    let buffered: Vec<u64> = if k % 2 == 1 { masters.iter().copied().take(2).collect() } else { vec![] };
    let mut units = 0u64;
    with_spec!(spec, T => {
        let cfg = ReadCfg { buffered: buffered.clone(), ..ReadCfg::default() };
        let base = read_all::<T>(&bytes, &cfg);
        for mask in 0..(1u64 << (len - 1)) {
            let mut steps = Vec::new();
            let mut run = 0usize;
            for b in 0..len {
                run += 1;
                if b + 1 == len || (mask >> b) & 1 == 1 {
                    if (mask ^ k) & 1 == 1 {
                        steps.push(AStep::Pending);
                    }
                    steps.push(AStep::Chunk(run));
                    run = 0;
                }
            }
            let (obs, _, _) = run_async::<T>(&bytes, steps.clone(), &buffered, item_bound(len));
            units += 1;
            if obs != base {
                return Err(format!(
                    "async result depends on how the source splits the bytes:\n  input: {}\n  reads: {:?} buffered {:x?}\n  async:    {}\n  blocking: {}",
                    desc, steps, buffered, render_obs(&obs), render_obs(&base)
                ));
            }
        }
    });
    c.units = units;
    c.nontrivial_units = units.saturating_sub(1);
    c.checks = units;
    c.label(if buffered.is_empty() { "unbuffered" } else { "buffered_set" });
    c.sample_with(|| format!("{} × all {} partitions into async reads, buffered {:x?}", desc, 1u64 << (len - 1), buffered));
    Ok(())
}

/// the pinned finding D14 (fixed): a fixed 33-byte document, partition [5, 28]
fn stage_pinned(i: &Input, c: &mut Case) -> Result<(), String> {
    let a = i.args();
    let first = a.first().copied().unwrap_or(5) as usize;
    crate::dynspec::set_current(crate::gen::rich());
    use crate::dynspec::RichSpec;
    let doc = vec![Node::master(
        0x1a45dfa3,
        vec![Node::leaf(0x4286, Payload::U(1)), Node::leaf(0x4282, Payload::S("verification-doc".into()))],
    )];
    let (bytes, _) = crate::refmodel::ref_encode(&doc);
    let base = read_all::<RichSpec>(&bytes, &ReadCfg::strict());
    let steps = vec![AStep::Chunk(first.min(bytes.len())), AStep::Chunk(bytes.len())];
    let (obs, _, _) = run_async::<RichSpec>(&bytes, steps.clone(), &[], item_bound(bytes.len()));
    c.checks += 1;
    c.nontrivial = true;
    c.sample_with(|| format!("document {} ({} bytes), async reads {:?}", hex(&bytes), bytes.len(), steps));
    if obs != base {
        return Err(format!(
            "async next() after a read that ends inside a tag: {} instead of {}\n  document {} partition [{}, rest]",
            render_obs(&obs),
            render_obs(&base),
            hex(&bytes),
            first
        ));
    }
    Ok(())
}

pub const STAGES: &[Stage] = &[
    Stage { name: "schedules", f: stage },
    Stage { name: "pinned_straddle", f: stage_pinned },
    Stage { name: "any_partition", f: stage_any },
    Stage { name: "all_partitions", f: stage_all_partitions },
];

pub fn run(rc: &mut RunCtx) {
    let seed = rc.seed;
    let (docs, max_len) = rc.pick((80u64, 12u64), (250u64, 15u64));
    rc.run_indexed(STAGES[3], docs, false, &|k| Input::Args(vec![seed, k, max_len]));
    rc.run_one(STAGES[1], Input::Args(vec![3]));
    rc.run_pt(STAGES[2], rc.pick(320_000, 2_000_000), (128, 700));
    rc.require_label("any_partition", "two_or_more_reads", 500_000);
    rc.require_label("any_partition", "has_pending", 300_000);
    rc.require_label("any_partition", "buffered_set", 100_000);
    rc.require_label("any_partition", "input_larger_than_64KiB", 5_000);
    if !rc.quick() {
        rc.run_fuzz(Some(STAGES[2]), 350);
    }
}
