//! Pieces shared by the reader/writer properties.

use crate::drive::*;
use crate::gen::*;
use crate::model::*;
use crate::refmodel::*;
use crate::runner::Case;
use crate::tape::Tape;

pub struct Doc {
    pub spec: SpecChoice,
    pub forest: Vec<Node>,
    /// unknown-size flags cleared: (master with placeholder path, followed by a non-closing element)
    pub cleared: (usize, usize),
}

/// spec + conformant forest + encoding/presentation choices, ambiguity-free by construction.
pub fn gen_doc(t: &mut Tape, so: SpecOpts, to: TreeOpts, eo: EncOpts) -> Doc {
    let spec = gen_spec_choice(t, so);
    let mut forest = gen_forest(t, spec.table(), to);
    assign_enc(t, &mut forest, eo);
    let cleared = sanitize_unknown(spec.table(), &mut forest, !eo.noncanonical);
    fix_widths(&mut forest);
    Doc { spec, forest, cleared }
}

pub fn note_cleared(c: &mut Case, d: &Doc) {
    for _ in 0..d.cleared.0 {
        c.exclude("unknown_size_on_master_with_placeholder_path");
    }
    for _ in 0..d.cleared.1 {
        c.exclude("global_element_directly_after_unknown_size_master");
    }
}

pub fn doc_labels(c: &mut Case, d: &Doc) {
    let f = &d.forest;
    c.label(if d.spec.is_rich() { "spec_macro_derived" } else { "spec_generated" });
    c.label_if(any_node(f, &|n| n.is_master() && n.enc.unknown), "unknown_size");
    c.label_if(
        any_node(f, &|n| n.is_master() && n.enc.unknown && n.children().iter().any(|c| c.is_master() && c.enc.unknown)),
        "unknown_nested",
    );
    c.label_if(has_label_boundary_len(f), "boundary_len");
    c.label_if(any_node(f, &|n| n.enc.size_w != 0 && !n.enc.unknown), "explicit_width");
    c.label_if(any_node(f, &|n| n.enc.full), "has_full");
    c.label_if(any_node(f, &|n| n.is_master() && n.enc.flat_in_full), "start_end_pair_inside_full");
    c.label_if(any_node(f, &|n| matches!(&n.kind, NodeKind::Leaf(Payload::I(v)) if *v < 0)), "neg_int");
    c.label_if(any_node(f, &|n| matches!(&n.kind, NodeKind::Leaf(Payload::F(_)))), "float");
    c.label_if(any_node(f, &|n| matches!(&n.kind, NodeKind::Leaf(Payload::Raw(_)))), "raw_tags");
    c.label_if(any_node(f, &|n| n.id >= 1 << 32), "id_5plus_bytes");
    let t = d.spec.table();
    c.label_if(any_node(f, &|n| t.get(n.id).map(|e| e.is_global()).unwrap_or(false)), "global_element");
    c.label_if(forest_depth(f) >= 3, "depth3plus");
    c.label_if(any_node(f, &|n| n.is_master() && n.children().is_empty()), "empty_master");
}

pub fn has_nested_master(f: &[Node]) -> bool {
    any_node(f, &|n| n.is_master() && !n.children().is_empty())
}

pub fn describe_doc(d: &Doc) -> String {
    format!("spec[{}] {} doc: {}", if d.spec.is_rich() { "RichSpec" } else { "generated" }, spec_brief(d.spec.table()), render_forest(&d.forest))
}

pub fn spec_brief(t: &SpecTable) -> String {
    let mut s = t.render();
    if s.len() > 700 {
        let mut cut = 700;
        while !s.is_char_boundary(cut) {
            cut -= 1;
        }
        s.truncate(cut);
        s.push('…');
    }
    s
}

/// Compare an observed run with an exact expected item list (no error, clean end).
pub fn expect_exact(obs: &[Obs], want: &[Flat], what: &str) -> Result<(), String> {
    if let Some(e) = first_err(obs) {
        let n = obs.iter().take_while(|o| matches!(o, Obs::Item(..))).count();
        return Err(format!(
            "{}: after {} of {} expected items the iterator returned {} (last items: {})",
            what,
            n,
            want.len(),
            e.short(),
            render_obs(&obs[n.saturating_sub(3)..n])
        ));
    }
    let got = items_of(obs);
    if got.len() != want.len() || got != want {
        let k = got.iter().zip(want.iter()).take_while(|(a, b)| a == b).count();
        return Err(format!(
            "{}: item {} differs: got {:?}, expected {:?} (got {} items, expected {})",
            what,
            k,
            got.get(k),
            want.get(k),
            got.len(),
            want.len()
        ));
    }
    Ok(())
}

/// Insert raw tags (ids outside the spec) at random places of a forest; returns how many.
pub fn insert_raw_tags(t: &mut Tape, spec: &SpecTable, forest: &mut Vec<Node>) -> usize {
    let mut n = 0;
    fn raw(t: &mut Tape, spec: &SpecTable) -> Node {
        let id = gen_unknown_id(t, spec);
        let mut po = PayOpts { big_left: 0, huge: false, max_small: 20 };
        let len = gen_len(t, &mut po);
        Node::leaf(id, Payload::Raw(gen_binary(t, len)))
    }
    fn rec(t: &mut Tape, spec: &SpecTable, ch: &mut Vec<Node>, top: bool, n: &mut usize) {
        let old = std::mem::take(ch);
        for (i, mut c) in old.into_iter().enumerate() {
            if !(top && i == 0) && *n < 6 && t.chance(1, 6) {
                ch.push(raw(t, spec));
                *n += 1;
            }
            if let Some(cc) = c.children_mut() {
                rec(t, spec, cc, false, n);
            }
            ch.push(c);
        }
        if *n < 6 && t.chance(1, 6) {
            ch.push(raw(t, spec));
            *n += 1;
        }
    }
    rec(t, spec, forest, true, &mut n);
    n
}

/// reference bytes + layout for a doc; `writer_view` forces 8-byte unknown markers like the writer
pub fn encode_doc(d: &Doc) -> (Vec<u8>, Vec<Lay>) {
    ref_encode(&d.forest)
}

/// all tolerance masks
pub const ALL_TOL: [u8; 8] = [0, 1, 2, 3, 4, 5, 6, 7];

pub fn gen_capacity(t: &mut Tape, len: usize) -> Option<usize> {
    match t.weighted(&[6, 3, 2, 2]) {
        0 => None,
        1 => Some(*t.pick(&[16usize, 17, 24, 33, 64])),
        2 => Some(*t.pick(&[0usize, 1, 2, 7, 8, 15])),
        _ => Some(match t.below(3) {
            0 => len.saturating_sub(1),
            1 => len,
            _ => len + 1,
        }),
    }
}

/// random composition of `len` into read sizes, biased to tiny reads
pub fn gen_chunks(t: &mut Tape, len: usize) -> Vec<RStep> {
    let mut v = Vec::new();
    let mut left = len;
    let mode = t.below(4);
    let mut guard = 0;
    while left > 0 && guard < 4096 {
        let n = match mode {
            0 => 1,
            1 => 1 + t.below(3),
            2 => 1 + t.below(17),
            _ => 1 + t.below(left.min(400)),
        };
        let n = n.min(left);
        v.push(RStep::Chunk(n));
        left -= n;
        guard += 1;
        if t.exhausted() && mode != 0 {
            break;
        }
    }
    v
}
