//! C05 — the iterator is total: no panic, no hang, fused, on arbitrary bytes.

use crate::drive::*;
use crate::mutate::*;
use crate::runner::*;
use crate::tape::Tape;
use crate::with_spec;

pub const RULE: &str = "(specification, bytes, configuration, call script): bytes from the reader mix weighted towards mutations, random bytes and adversarial headers (zero-length numeric elements, 8-byte ids/sizes, \
all-ones sizes of every width, sizes near 2^56, 0x00 first bytes); configuration = tolerance subset × buffered subset × capacity 0..=64/len±1/default × size limit {16, 4096, 2^20, default, None} × end-of-stream closing on/off; \
script = interleaving of next() and try_recover() (try_recover mostly right after an error, sometimes at arbitrary points) over a scripted source with short reads and optionally an injected io::Error(Other, \"inj-k\") — once, or (a third of the injections) on every read from then on. \
Oracle: no call panics; successful items <= 4·len + 64 (calls capped at 8× that: exceeding = non-termination); once next() returns None with the source exhausted, three further calls return None; try_recover fails only with UnexpectedEOF/ReadError \
and never moves backwards (first non-End item after it has a larger offset than the last before it); the first Err after an injected source error is ReadError carrying kind Other and the injected message, with no None before it; the first element emitted after a transient failure lies behind the last one emitted before it (nothing is read twice); the item bound holds under a source that keeps failing. \
Stage totality_deep_nesting: the same driver over documents nested 28-300 masters deep (recursive template specification or, 1 in 4, a generated one; innermost masters of unknown size, followed by a sibling at a drawn level; a third mutated). The injected error has one of 7 io::ErrorKinds (incl. UnexpectedEof, WouldBlock); kind and message must come back. Non-trivial: >= 1 successful item and >= 1 of {error returned, try_recover called, injected error}; distinct by (bytes, configuration, script).";

pub const ASSUMPTIONS: &[&str] = &[
    "specifications are consistent (DynSpec by construction, RichSpec by the macro) — the documented precondition for not panicking",
    "inputs that could make the iterator allocate > 4 MiB under the chosen size limit are read with a 1 MiB limit instead (documented behaviour: the limit is the user's protection); C17 covers the limit itself",
    "liveness beyond the call cap is not claimed",
];

fn stage(i: &Input, c: &mut Case) -> Result<(), String> {
    let mut t = Tape::new(i.tape());
    let m = gen_mixed(&mut t, MixOpts { weights: [1, 1, 6, 2, 4, 2], ..MixOpts::default() });
    totality(t, m, c)
}

/// the same driver over documents nested 28 .. 300 masters deep (`gen_deep`)
fn stage_deep(i: &Input, c: &mut Case) -> Result<(), String> {
    let mut t = Tape::new(i.tape());
    let m = gen_deep(&mut t, false);
    c.label("nested_28_to_300_deep");
    totality(t, m, c)
}

fn totality(mut t: Tape, m: MixedInput, c: &mut Case) -> Result<(), String> {
    let len = m.bytes.len();
    let mut cfg = super::c03::gen_read_cfg(&mut t, &m, true);
    cfg.eof_close = !t.chance(1, 4);
    // source script
    let mut steps = crate::props::common::gen_chunks(&mut t, len);
    let inject = t.chance(1, 3);
    let mut persistent = false;
    let mut inj_k = 0u32;
    if inject {
        inj_k = 1 + t.below(1000) as u32;
        if t.chance(1, 2) {
            // deliver exactly up to a tag boundary (taken from a plain parse of the bytes), then fail: the iterator has then
            // consumed everything it was given when it next asks the source
            let plain = with_spec!(m.spec, T => read_all::<T>(&m.bytes, &ReadCfg { tolerate: cfg.tolerate, max_size: cfg.max_size.clone(), ..ReadCfg::default() }));
            let mut bounds: Vec<usize> = plain.iter().filter_map(|o| if let Obs::Item(f, off) = o { if !f.is_end() && *off > 0 { Some(*off) } else { None } } else { None }).collect();
            bounds.dedup();
            if !bounds.is_empty() {
                let b = bounds[t.below(bounds.len())];
                let mut ns = Vec::new();
                let mut left = b;
                while left > 0 {
                    let n = (1 + t.below(24)).min(left);
                    ns.push(RStep::Chunk(n));
                    left -= n;
                }
                ns.push(RStep::Fail(inj_k));
                ns.push(RStep::Chunk(len - b));
                steps = ns;
                c.label("failure_injected_at_tag_boundary");
            } else {
                let at = t.below(steps.len() + 1);
                steps.insert(at, RStep::Fail(inj_k));
            }
        } else {
            let at = t.below(steps.len() + 1);
            steps.insert(at, RStep::Fail(inj_k));
        }
        // a source that does not recover: every read from the failure on fails the same way (the item bound must hold all the same)
        if t.chance(1, 3) {
            if let Some(at) = steps.iter().position(|s| matches!(s, RStep::Fail(_))) {
                steps.truncate(at + 1);
                for _ in 0..400 {
                    steps.push(RStep::Fail(inj_k));
                }
                persistent = true;
            }
        }
    }
    // call script: decisions drawn lazily
    let recover_after_err = t.range(0, 10) as u32; // probability /10
    let recover_anytime = t.below(3) as u32; // /40
    c.label(m.origin.label());
    c.label_if(inject, "injected_io_error");
    c.label_if(persistent, "source_keeps_failing");
    c.label_if(!cfg.eof_close, "eof_closing_off");
    c.label_if(cfg.capacity.map(|x| x < 16).unwrap_or(false), "capacity_below_16");
    c.key(&(&m.bytes, &format!("{:?}{:?}", steps, cfg.render()), recover_after_err, recover_anytime));
    c.sample_with(|| format!("{} | source {:?} | cfg {} | recover after error {}/10, anytime {}/40", describe_mixed(&m), &steps[..steps.len().min(20)], cfg.render(), recover_after_err, recover_anytime));

    let bound = item_bound(len);
    let mut log: Vec<String> = Vec::new();
    let mut items = 0usize;
    let mut errors = 0usize;
    let mut recovers = 0usize;
    let mut calls = 0usize;
    let mut last_nonend: Option<usize> = None;
    let mut pending_recover_floor: Option<usize> = None;
    let mut inject_floor: Option<usize> = None;
    let mut saw_injected_err = false;
    let mut none_before_injected = false;
    let res: Result<(), String> = with_spec!(m.spec, T => {
        let mut src = ScriptRead::new(&m.bytes, steps.clone());
        let mut rd = match Rd::<T, _>::new(&mut src, &cfg) {
            Ok(r) => r,
            Err(p) => return Err(format!("constructor panicked: {}", p)),
        };
        let mut just_errored = false;
        let mut result = Ok(());
        loop {
            calls += 1;
            if calls > 8 * bound {
                break;
            }
            let do_recover = if just_errored { (t.below(10) as u32) < recover_after_err } else { (t.below(40) as u32) < recover_anytime };
            just_errored = false;
            let injected_now = |rd: &Rd<T, &mut ScriptRead>| inject && rd.it.get_ref().idx > 0 && rd.it.get_ref().steps[..rd.it.get_ref().idx].iter().any(|s| matches!(s, RStep::Fail(_)));
            if do_recover {
                recovers += 1;
                match rd.recover() {
                    Err(p) => {
                        result = Err(format!("try_recover() panicked: {}", p));
                        break;
                    }
                    Ok(Ok(())) => {
                        log.push("recover:ok".into());
                        pending_recover_floor = last_nonend;
                    }
                    Ok(Err(e)) => {
                        log.push(format!("recover:{}", e.short()));
                        match &e {
                            ErrK::Eof { .. } => {}
                            ErrK::Read { kind, msg } => {
                                if !(inject && *kind == inj_kind(inj_k) && msg.contains(&format!("inj-{}", inj_k))) {
                                    result = Err(format!("try_recover() returned a read error that the source never produced: {:?}", e));
                                    break;
                                }
                                saw_injected_err = true;
                            }
                            other => {
                                result = Err(format!("try_recover() failed with {:?}; it may only report end of input or a source I/O error", other));
                                break;
                            }
                        }
                        if matches!(e, ErrK::Eof { .. }) && rd.it.get_ref().all_delivered() && rd.it.get_ref().script_done() {
                            // nothing left to scan; further recovery attempts are pointless but must stay harmless
                            if recovers > 3 {
                                break;
                            }
                        }
                    }
                }
                continue;
            }
            match rd.next() {
                Step::Panic(p) => {
                    result = Err(format!("next() panicked: {}", p));
                    break;
                }
                Step::Item(f, off) => {
                    items += 1;
                    if items > bound {
                        result = Err(format!("more than {} successful items from {} input bytes", bound, len));
                        break;
                    }
                    if !f.is_end() {
                        if let Some(floor) = inject_floor.take() {
                            if off <= floor {
                                result = Err(format!("after the source's failure inj-{} the iterator emitted the element at offset {} although it had already emitted the one at {}: input read twice", inj_k, off, floor));
                                break;
                            }
                        }
                        if let Some(floor) = pending_recover_floor.take() {
                            if off <= floor {
                                result = Err(format!("try_recover() moved backwards: first tag after recovery at offset {}, last tag before it at {}", off, floor));
                                break;
                            }
                        }
                        last_nonend = Some(off);
                    }
                    if log.len() < 60 {
                        log.push(format!("{:?}@{}", f, off));
                    }
                }
                Step::Err(e) => {
                    errors += 1;
                    just_errored = true;
                    if log.len() < 80 {
                        log.push(format!("ERR {}", e.short()));
                    }
                    if let ErrK::Read { kind, msg } = &e {
                        if !(inject && *kind == inj_kind(inj_k) && msg.contains(&format!("inj-{}", inj_k))) {
                            result = Err(format!("next() returned a read error that the source never produced: {:?}", e));
                            break;
                        }
                        saw_injected_err = true;
                        // whatever was emitted before the failure must not be emitted again after it
                        inject_floor = last_nonend;
                    } else if injected_now(&rd) && !saw_injected_err {
                        result = Err(format!("the source failed with inj-{} but the first error the iterator reports afterwards is {}", inj_k, e.short()));
                        break;
                    }
                    if errors > 40 {
                        break;
                    }
                }
                Step::Done => {
                    if injected_now(&rd) && !saw_injected_err {
                        none_before_injected = true;
                    }
                    log.push("None".into());
                    let s = rd.it.get_ref();
                    if s.all_delivered() && s.script_done() {
                        // fused: three further calls return None
                        for k in 0..3 {
                            match rd.next() {
                                Step::Done => {}
                                Step::Panic(p) => {
                                    result = Err(format!("next() after None panicked: {}", p));
                                    break;
                                }
                                Step::Item(f, o) => {
                                    result = Err(format!("next() returned None with the source exhausted, but call {} afterwards returned {:?}@{}", k + 1, f, o));
                                    break;
                                }
                                Step::Err(e) => {
                                    result = Err(format!("next() returned None with the source exhausted, but call {} afterwards returned {}", k + 1, e.short()));
                                    break;
                                }
                            }
                        }
                        c.label("fused_checked");
                        break;
                    }
                }
            }
        }
        if result.is_ok() && calls > 8 * bound {
            result = Err(format!("no end after {} calls on {} input bytes (non-termination)", calls, len));
        }
        if result.is_ok() && none_before_injected {
            result = Err(format!("the source failed with inj-{} but next() returned None before (or instead of) reporting it", inj_k));
        }
        result
    });
    c.checks += calls as u64;
    c.label_if(errors > 0, "error_returned");
    c.label_if(recovers > 0, "try_recover_called");
    c.label_if(saw_injected_err, "injected_error_surfaced");
    c.nontrivial = items >= 1 && (errors > 0 || recovers > 0 || inject);
    res.map_err(|e| {
        format!(
            "{}\n  history: {}\n  input: {}\n  source: {:?}\n  cfg: {}",
            e,
            log.join(", "),
            describe_mixed(&m),
            &steps[..steps.len().min(40)],
            cfg.render()
        )
    })
}


// ---------------------------------------------------------------------------------------------
// stack use must not grow with the number of consecutive buffered masters (unbounded recursion = abort by stack overflow)

struct DepthRead<'a> {
    data: &'a [u8],
    pos: usize,
    min_sp: usize,
}

impl<'a> std::io::Read for DepthRead<'a> {
    #[inline(never)]
    fn read(&mut self, buf: &mut [u8]) -> std::io::Result<usize> {
        let marker = 0u8;
        let sp = &marker as *const u8 as usize;
        if sp < self.min_sp {
            self.min_sp = sp;
        }
        // small reads so that the source is consulted throughout the parse
        let n = buf.len().min(self.data.len() - self.pos).min(64);
        buf[..n].copy_from_slice(&self.data[self.pos..self.pos + n]);
        self.pos += n;
        Ok(n)
    }
}

#[inline(never)]
fn depth_of_parse(bytes: &[u8], buffered: &[u64]) -> Result<(usize, usize), String> {
    use crate::dynspec::DynTag;
    use ebml_iterable::specs::{EbmlSpecification, Master};
    let base_marker = 0u8;
    let base_sp = &base_marker as *const u8 as usize;
    let mut src = DepthRead { data: bytes, pos: 0, min_sp: usize::MAX };
    let items = guarded(|| {
        let tags: Vec<DynTag> = buffered.iter().filter_map(|id| DynTag::get_master_tag(*id, Master::Start)).collect();
        let it = ebml_iterable::TagIterator::<_, DynTag>::new(&mut src, &tags);
        let mut n = 0usize;
        for x in it {
            if x.is_err() {
                break;
            }
            n += 1;
        }
        n
    })?;
    Ok((base_sp.saturating_sub(src.min_sp.min(base_sp)), items))
}

fn stage_depth(i: &Input, c: &mut Case) -> Result<(), String> {
    use crate::model::*;
    use crate::refmodel::*;
    let a = i.args();
    let (kind, big) = (a[0], a[1] as usize);
    let spec = std::rc::Rc::new(SpecTable::new(vec![
        Elem { id: 0x81, ty: Ty::Master, path: vec![], name: "M".into() },
        Elem { id: 0x82, ty: Ty::U, path: vec![PathPart::Id(0x81)], name: "U".into() },
        Elem { id: 0x83, ty: Ty::U, path: vec![], name: "R".into() },
    ]));
    crate::dynspec::set_current(spec);
    let build = |n: usize| -> Vec<u8> {
        let mut forest = Vec::new();
        for _ in 0..n {
            let mut m = Node::master(0x81, if kind == 2 || kind == 3 { vec![Node::leaf(0x82, Payload::U(7))] } else { vec![] });
            if kind == 1 {
                m.enc.unknown = true;
                m.enc.size_w = 1;
            }
            forest.push(m);
            if kind == 3 {
                forest.push(Node::leaf(0x83, Payload::U(1)));
            }
        }
        ref_encode(&forest).0
    };
    let small = 100usize;
    let (d_small, n_small) = depth_of_parse(&build(small), &[0x81])?;
    let (d_big, n_big) = depth_of_parse(&build(big), &[0x81])?;
    c.checks += 2;
    c.nontrivial = true;
    let per = if kind == 3 { 2 } else { 1 };
    c.sample_with(|| format!("{} consecutive buffered masters (shape {}): stack depth {} bytes; {} of them: {} bytes", small, kind, d_small, big, d_big));
    if n_small != small * per || n_big != big * per {
        return Err(format!("harness: expected {} / {} items, got {} / {}", small * per, big * per, n_small, n_big));
    }
    if d_big > d_small + 64 * 1024 {
        let per_master = (d_big - d_small) / (big - small);
        return Err(format!(
            "stack use grows with the number of consecutive buffered masters (shape {}): {} bytes deep for {} masters, {} bytes for {} (~{} bytes each) — the recursion aborts the process by stack overflow once a file holds enough of them (about {} for a 2 MiB thread stack, {} bytes of input)",
            kind, d_small, small, d_big, big, per_master, (2 << 20) / per_master.max(1), (2 << 20) / per_master.max(1) * 2
        ));
    }
    Ok(())
}

pub const STAGES: &[Stage] = &[Stage { name: "totality", f: stage }, Stage { name: "stack_depth_buffered_masters", f: stage_depth }, Stage { name: "totality_deep_nesting", f: stage_deep }];

pub fn run(rc: &mut RunCtx) {
    // shapes: 0 empty known-size, 1 unknown-size closed by the next sibling, 2 with a child, 3 separated by a root-level leaf
    rc.run_indexed(STAGES[1], 4, true, &|k| Input::Args(vec![k, 3000]));
    rc.run_pt(STAGES[0], rc.pick(960_000, 5_000_000), (128, 700));
    rc.run_pt(STAGES[2], rc.pick(20_000, 150_000), (64, 200));
    for l in ["error_returned", "try_recover_called", "injected_error_surfaced", "fused_checked", "capacity_below_16", "input_adversarial_headers", "input_random_bytes", "failure_injected_at_tag_boundary", "source_keeps_failing"] {
        rc.require_label("totality", l, 10_000);
    }
    if !rc.quick() {
        rc.run_fuzz(Some(STAGES[0]), 400);
    }
}
