//! C02 — reading, re-writing and reading again is a fixpoint.

use crate::drive::*;
use crate::dynspec::Spec;
use crate::model::*;
use crate::mutate::*;
use crate::runner::*;
use crate::tape::Tape;
use crate::with_spec;

pub const RULE: &str = "(second stage fixpoint_deep_nesting: the same relation on documents nested 28-300 masters deep over a recursive template specification.) byte streams from four sources, mixed 3:4:4:1 — canonical encodings of generated documents, reference encodings with non-canonical choices (zero-padded and zero-length integers, 4-byte floats, \
oversized size fields 2-8 bytes, unknown-size masters in any width closed by a following element or EOF), structure-aware mutations of those, blind mutations / random bytes. A stream enters the property only if it begins at a root element \
and the strict iterator reads it without error (acceptance rate measured and gated). Oracle: t1 = read(b); every item of t1 is accepted by a fresh TagWriter::write; t2 = read(write(t1)) has no error and t2 == t1 item by item \
(floats by bits, Start/End positions); in a third of the cases b is also read with a generated set of buffered masters and those items (Full masters included) are written back: reading that output must again give t1. Non-trivial: write(t1) != b (the stream was not already in the writer's canonical form); distinct by input bytes.";

pub const ASSUMPTIONS: &[&str] = &[
    "streams the strict reader rejects are outside the property (counted as skipped_rejected)",
    "offsets are not compared (they legitimately change when encodings are canonicalised)",
];

/// the check itself, reusable by the fuzz target: Ok(Some(nontrivial)) if the stream was in the domain
pub fn fixpoint<T: Spec>(spec: &SpecTable, b: &[u8], buffered: &[u64]) -> Result<Option<bool>, String> {
    let (max_size, _) = safe_max_size(b, MaxSize::Untouched);
    let cfg = ReadCfg { max_size, ..ReadCfg::default() };
    let o1 = read_all::<T>(b, &cfg);
    match o1.last() {
        Some(Obs::Panic(p)) => return Err(format!("iterator panicked on the input: {}", p)),
        Some(Obs::Runaway(n)) => return Err(format!("iterator produced more than {} items", n)),
        Some(Obs::Err(_)) => return Ok(None),
        _ => {}
    }
    let t1 = items_of(&o1);
    // begins at a root element
    match t1.first() {
        Some(f) if spec.get(f.id()).map(|e| e.is_root()).unwrap_or(false) => {}
        _ => return Ok(None),
    }
    let ops: Vec<WOp> = t1.iter().map(|f| WOp::Write(f.clone(), WOpt::Default)).collect();
    let out = write_ops::<T>(&ops).map_err(|(k, e)| {
        format!(
            "the writer rejects item #{} {} of a sequence the strict reader accepted: {:?}\n  read: {}",
            k,
            ops.get(k).map(|o| o.short()).unwrap_or("flush".into()),
            e,
            render_flats(&t1)
        )
    })?;
    let o2 = read_all::<T>(&out, &ReadCfg::strict());
    if let Some(e) = first_err(&o2) {
        return Err(format!("re-reading the re-written stream fails with {}\n  first read: {}\n  re-written bytes: {}", e.short(), render_flats(&t1), hex(&out[..out.len().min(240)])));
    }
    let t2 = items_of(&o2);
    if t2 != t1 {
        let k = t1.iter().zip(t2.iter()).take_while(|(a, b)| a == b).count();
        return Err(format!(
            "second reading differs at item {}: first {:?}, second {:?} ({} vs {} items)\n  first read: {}\n  re-written bytes: {}",
            k,
            t1.get(k),
            t2.get(k),
            t1.len(),
            t2.len(),
            render_flats(&t1),
            hex(&out[..out.len().min(240)])
        ));
    }
    // the tags a reader emits may also be whole buffered masters: handing those Full items back to the writer must give a stream with the
    // same meaning as well
    if !buffered.is_empty() {
        let o1b = read_all::<T>(b, &ReadCfg { buffered: buffered.to_vec(), ..cfg.clone() });
        if first_err(&o1b).is_some() || matches!(o1b.last(), Some(Obs::Panic(_)) | Some(Obs::Runaway(_))) {
            return Err(format!("the stream reads cleanly without buffering but not with masters {:x?} buffered: {}", buffered, render_obs(&o1b)));
        }
        let t1b = items_of(&o1b);
        let ops: Vec<WOp> = t1b.iter().map(|f| WOp::Write(f.clone(), WOpt::Default)).collect();
        let out_b = write_ops::<T>(&ops).map_err(|(k, e)| {
            format!("the writer rejects item #{} {} of a sequence the strict reader emitted with masters {:x?} buffered: {:?}\n  read: {}", k, ops.get(k).map(|o| o.short()).unwrap_or("flush".into()), buffered, e, render_flats(&t1b))
        })?;
        let o2b = read_all::<T>(&out_b, &ReadCfg::strict());
        if let Some(e) = first_err(&o2b) {
            return Err(format!("re-reading the stream re-written from buffered (Full) items fails with {}\n  first read: {}\n  re-written bytes: {}", e.short(), render_flats(&t1b), hex(&out_b[..out_b.len().min(240)])));
        }
        let t2b = items_of(&o2b);
        if t2b != t1 {
            let k = t1.iter().zip(t2b.iter()).take_while(|(a, b)| a == b).count();
            return Err(format!(
                "second reading of the stream re-written from buffered (Full) items differs at item {}: first {:?}, second {:?} ({} vs {} items)\n  first read (masters {:x?} buffered): {}\n  re-written bytes: {}",
                k, t1.get(k), t2b.get(k), t1.len(), t2b.len(), buffered, render_flats(&t1b), hex(&out_b[..out_b.len().min(240)])
            ));
        }
    }
    Ok(Some(out != b))
}

fn stage(i: &Input, c: &mut Case) -> Result<(), String> {
    let mut t = Tape::new(i.tape());
    let mut mo = MixOpts { weights: [3, 4, 4, 1, 0, 0], ..MixOpts::default() };
    // element sizes at the vint width boundaries (126..129, 16382..16384) must survive re-writing too
    mo.tree.pay = crate::gen::PayOpts { big_left: 1, huge: false, max_small: 24 };
    let m = gen_mixed(&mut t, mo);
    fix(t, m, c)
}

/// the same relation over documents nested 28 .. 300 masters deep (recursive template specification, `gen_deep`)
fn stage_deep(i: &Input, c: &mut Case) -> Result<(), String> {
    let mut t = Tape::new(i.tape());
    let valid_only = !t.chance(1, 4);
    let m = gen_deep(&mut t, valid_only);
    c.label("nested_28_to_300_deep");
    fix(t, m, c)
}

fn fix(mut t: Tape, m: MixedInput, c: &mut Case) -> Result<(), String> {
    // a third of the cases: some masters are also read buffered and handed back to the writer as Full items
    let mut buffered: Vec<u64> = Vec::new();
    if t.chance(1, 3) {
        for id in m.spec.table().masters() {
            if t.chance(1, 2) {
                buffered.push(id);
            }
        }
    }
    c.key(&(&m.bytes, &buffered));
    let r = with_spec!(m.spec, T => fixpoint::<T>(m.spec.table(), &m.bytes, &buffered));
    match r {
        Ok(None) => {
            c.skipped = true;
            c.exclude(match m.origin {
                Origin::Mutated => "skipped_rejected_mutated",
                Origin::Blind => "skipped_rejected_random",
                _ => "skipped_rejected_other",
            });
            Ok(())
        }
        Ok(Some(nt)) => {
            c.nontrivial = nt;
            c.checks += 3;
            c.label(m.origin.label());
            c.label_if(m.origin == Origin::Mutated, "mutated_accepted");
            for mu in &m.mutations {
                c.label(match *mu {
                    "size_set" => "accepted_after_size_set",
                    "flip_payload" => "accepted_after_flip_payload",
                    "id_replace_spec" => "accepted_after_id_replace",
                    "delete_span" | "dup_span" | "move_span" => "accepted_after_span_edit",
                    "truncate" => "accepted_after_truncate",
                    _ => "accepted_after_other_mutation",
                });
            }
            c.label_if(nt, "not_canonical");
            c.label_if(!buffered.is_empty(), "full_items_written_back");
            c.label_if(crate::gen::any_node(&m.forest, &|n| matches!(crate::gen::content_len(n), 16382..=16384)), "payload_16K_boundary");
            c.label_if(crate::gen::any_node(&m.forest, &|n| matches!(crate::gen::content_len(n), 126..=129)), "payload_127_boundary");
            c.sample_with(|| describe_mixed(&m));
            Ok(())
        }
        Err(e) => Err(format!("{}\n  input: {}", e, describe_mixed(&m))),
    }
}

pub const STAGES: &[Stage] = &[Stage { name: "fixpoint", f: stage }, Stage { name: "fixpoint_deep_nesting", f: stage_deep }];

pub fn run(rc: &mut RunCtx) {
    rc.run_pt(STAGES[0], rc.pick(800_000, 4_000_000), (96, 500));
    rc.run_pt(STAGES[1], rc.pick(6_000, 60_000), (64, 200));
    rc.require_label("fixpoint", "mutated_accepted", 30_000);
    rc.require_label("fixpoint", "full_items_written_back", 100_000);
    rc.require_label("fixpoint", "input_noncanonical", 100_000);
    rc.require_label("fixpoint", "payload_16K_boundary", 20_000);
    rc.require_label("fixpoint", "payload_127_boundary", 100_000);
    // acceptance rate of mutated streams
    if let Some(s) = rc.stats("fixpoint") {
        let acc = s.label("mutated_accepted");
        let rej = s.excluded.get("skipped_rejected_mutated").copied().unwrap_or(0);
        rc.notes.push(format!("mutated streams: {} accepted, {} rejected by the strict reader ({:.1}% accepted)", acc, rej, 100.0 * acc as f64 / (acc + rej).max(1) as f64));
        if acc * 10 < acc + rej {
            rc.inconclusive.push(format!("health gate: only {} of {} mutated streams accepted (< 10%)", acc, acc + rej));
        }
    }
    if !rc.quick() {
        rc.run_fuzz(Some(STAGES[0]), 300);
    }
}
