//! C13 — each tolerance switch relaxes only its own check; relaxing never loses tags.

use crate::drive::*;
use crate::gen::*;
use crate::model::*;
use crate::mutate::*;
use crate::props::c12::flat_positions;
use crate::props::common::*;
use crate::refmodel::*;
use crate::runner::*;
use crate::tape::Tape;
use crate::with_spec;

pub const RULE: &str = "stage single_fault: a valid known-size document with exactly one injected fault — element with a well-formed id outside the spec (parent sizes re-computed), element under a chain its path does not allow, \
child whose declared size crosses the end of a known-size ancestor (payload present, so it is not also an EOF), master header declaring more than the size limit M ∈ {5, 100, 4096, untouched default 4·10^9} — read under ALL 8 subsets of tolerated classes: \
with the fault's own class not tolerated the first error is exactly that class' kind at the faulty element's offset (HierarchyError: its id), items before it equal the document's prefix and contain no raw tag; with it tolerated that kind never appears; \
the size limit is in force until changed and its threshold is exact (M passes, M+1 fails; 4·10^9+1 and 2^56-2 fail untouched). Stage mutated: arbitrary inputs from the reader mix × all 8 subsets: no error of a tolerated kind, raw tags only with InvalidTagIds tolerated, \
and for inputs starting at a root element the strict parse's items are a prefix of every more tolerant parse's items. One evaluation per (input, subset). Non-trivial: the fault is reached, or strict and tolerant parses differ; distinct by (input, subset).";

pub const ASSUMPTIONS: &[&str] = &[
    "faults are generated so that the other classes' conditions are false at the faulty element (the statement does not fix which of two failing checks wins)",
    "numeric elements are not used for the overrun fault (a numeric payload > 8 bytes is reported as InvalidTagData by an earlier, documented check)",
];

#[derive(Clone, Copy, Debug, PartialEq, Eq)]
enum Fault {
    None,
    UnknownId,
    Misplaced,
    Overrun,
    Oversize,
    /// two faults on one element: id outside the spec AND declared size crossing a known-size ancestor
    UnknownIdOverrun,
}

fn kind_of(e: &ErrK) -> u8 {
    match e {
        ErrK::InvalidTagId { .. } => TOL_IDS,
        ErrK::Hierarchy { .. } => TOL_HIER,
        ErrK::OversizedChild { .. } => TOL_OVER,
        _ => 0,
    }
}

fn has_raw(items: &[Flat]) -> bool {
    items.iter().any(|f| match f {
        Flat::Leaf(_, Payload::Raw(_)) => true,
        Flat::Full(_, ch) => has_raw(ch),
        _ => false,
    })
}

/// insert `node` as a child at a tape-chosen place; returns false if impossible
fn insert_somewhere(t: &mut Tape, forest: &mut Vec<Node>, node: Node, want_chain: &dyn Fn(&[u64]) -> bool) -> bool {
    // collect candidate (path of indices) positions: masters whose chain satisfies want_chain
    fn rec(n: &Node, chain: &mut Vec<u64>, path: &mut Vec<usize>, out: &mut Vec<Vec<usize>>, want: &dyn Fn(&[u64]) -> bool) {
        if !n.is_master() {
            return;
        }
        chain.push(n.id);
        if want(chain) {
            out.push(path.clone());
        }
        for (i, c) in n.children().iter().enumerate() {
            path.push(i);
            rec(c, chain, path, out, want);
            path.pop();
        }
        chain.pop();
    }
    let mut out = Vec::new();
    for (i, n) in forest.iter().enumerate() {
        rec(n, &mut Vec::new(), &mut vec![i], &mut out, want_chain);
    }
    if out.is_empty() {
        return false;
    }
    let p = out[t.below(out.len())].clone();
    let mut cur: &mut Node = &mut forest[p[0]];
    for &i in &p[1..] {
        cur = &mut cur.children_mut().unwrap()[i];
    }
    let ch = cur.children_mut().unwrap();
    let at = t.below(ch.len() + 1);
    ch.insert(at, node);
    true
}

fn find_marked(forest: &[Node], pred: &dyn Fn(&Node) -> bool) -> Option<usize> {
    // pre-order index of the first node satisfying pred
    fn rec(n: &Node, k: &mut usize, pred: &dyn Fn(&Node) -> bool) -> Option<usize> {
        let me = *k;
        *k += 1;
        if pred(n) {
            return Some(me);
        }
        for c in n.children() {
            if let Some(x) = rec(c, k, pred) {
                return Some(x);
            }
        }
        None
    }
    let mut k = 0;
    for n in forest {
        if let Some(x) = rec(n, &mut k, pred) {
            return Some(x);
        }
    }
    None
}


fn stage_fault(i: &Input, c: &mut Case) -> Result<(), String> {
    let mut t = Tape::new(i.tape());
    let to = TreeOpts { max_nodes: 24, pay: PayOpts { big_left: 0, huge: false, max_small: 16 }, deep: t.chance(1, 2), ..TreeOpts::default() };
    let fault = *t.pick(&[Fault::None, Fault::UnknownId, Fault::UnknownId, Fault::Misplaced, Fault::Misplaced, Fault::Overrun, Fault::Overrun, Fault::Oversize, Fault::Oversize, Fault::UnknownIdOverrun]);
    // the overrun fault is also injected into documents that mix known- and unknown-size masters (the overrun is measured
    // against the innermost KNOWN-size ancestor); the id / placement faults keep to known-size documents, where an inserted
    // element cannot at the same time end an unknown-size master
    let with_unknown = fault == Fault::Overrun && t.chance(1, 2);
    let mut d = gen_doc(&mut t, SpecOpts::default(), to, EncOpts { widths: true, unknown: with_unknown, full: false, noncanonical: false });
    let spec = d.spec.table().clone();
    let limit_choice = *t.pick(&[None, Some(5usize), Some(100), Some(4096)]);
    let mut bytes;
    let mut lay;
    let flat;
    let pos;
    let mut fault_at: Option<(usize, usize, u64)> = None; // (flat position, tag_start, id)
    let mut oversize_decl = 0u64;
    let mut fault = fault;
    match fault {
        Fault::None | Fault::Oversize => {}
        Fault::UnknownId | Fault::UnknownIdOverrun => {
            let id = gen_unknown_id(&mut t, &spec);
            let n = t.below(6);
            let mut node = Node::leaf(id, Payload::Raw(t.bytes(n)));
            node.enc.mark = true;
            if fault == Fault::UnknownIdOverrun {
                node.enc.size_w = 4;
            }
            if !insert_somewhere(&mut t, &mut d.forest, node, &|_| true) {
                fault = Fault::None;
            }
        }
        Fault::Misplaced => {
            // an element that is NOT allowed under the chosen chain; pick element first, then a chain where it is not allowed
            let e = spec.elems[t.below(spec.elems.len())].clone();
            let mut node = if e.ty == Ty::Master {
                Node::master(e.id, vec![])
            } else {
                let mut po = PayOpts { big_left: 0, huge: false, max_small: 4 };
                Node::leaf(e.id, gen_payload(&mut t, e.ty, &mut po))
            };
            node.enc.mark = true;
            let path = e.path.clone();
            if !insert_somewhere(&mut t, &mut d.forest, node, &|chain| !ref_match(&path, chain)) {
                fault = Fault::None;
            }
        }
        Fault::Overrun => {}
    }
    fix_widths(&mut d.forest);
    // for the overrun fault widen the victim's size field before encoding
    let mut victim: Option<usize> = None;
    if fault == Fault::Overrun {
        // victims: non-numeric leaves and masters at depth >= 1
        let mut cands = Vec::new();
        fn rec(n: &Node, depth: usize, k: &mut usize, out: &mut Vec<usize>) {
            let me = *k;
            *k += 1;
            let ok = match &n.kind {
                NodeKind::Leaf(Payload::S(_)) | NodeKind::Leaf(Payload::B(_)) => true,
                NodeKind::Master(_) => true,
                _ => false,
            };
            if ok && depth >= 1 {
                out.push(me);
            }
            for c in n.children() {
                rec(c, depth + 1, k, out);
            }
        }
        let mut k = 0;
        for n in &d.forest {
            rec(n, 0, &mut k, &mut cands);
        }
        if cands.is_empty() {
            fault = Fault::None;
        } else {
            // prefer victims sitting directly inside an unknown-size master (the overrun is then against a grand-ancestor)
            let pre = ref_encode(&d.forest).1;
            let inside_unknown: Vec<usize> = cands.iter().copied().filter(|&k| pre[k].parent.map(|p| pre[p].unknown).unwrap_or(false)).collect();
            let v = if !inside_unknown.is_empty() && t.chance(3, 4) { inside_unknown[t.below(inside_unknown.len())] } else { cands[t.below(cands.len())] };
            // widen: set size_w = 4 on that node
            fn set(n: &mut Node, k: &mut usize, v: usize) {
                if *k == v {
                    n.enc.size_w = 4;
                }
                *k += 1;
                if let Some(ch) = n.children_mut() {
                    for c in ch.iter_mut() {
                        set(c, k, v);
                    }
                }
            }
            let mut k = 0;
            for n in d.forest.iter_mut() {
                set(n, &mut k, v);
            }
            victim = Some(v);
        }
    }
    fix_widths(&mut d.forest);
    let enc = ref_encode(&d.forest);
    bytes = enc.0;
    lay = enc.1;
    let fl = flatten(&d.forest);
    let ps = flat_positions(&d.forest);
    match fault {
        Fault::UnknownId | Fault::Misplaced | Fault::UnknownIdOverrun => {
            let idx = find_marked(&d.forest, &|n| n.enc.mark);
            match idx {
                Some(ix) => {
                    fault_at = Some((ps[ix], lay[ix].tag_start, lay[ix].id));
                    if fault == Fault::UnknownIdOverrun {
                        let l = lay[ix].clone();
                        let parent_end = lay[l.parent.unwrap()].payload_end;
                        let new_size = (parent_end - l.header_end) as u64 + 1 + t.below(20) as u64;
                        oversize_decl = new_size;
                        bytes[l.id_end..l.header_end].copy_from_slice(&ref_vint(new_size, 4).unwrap());
                        bytes.extend(std::iter::repeat(0x20).take(new_size as usize + 4));
                    }
                }
                None => fault = Fault::None,
            }
        }
        Fault::Overrun => {
            let v = victim.unwrap();
            let l = lay[v].clone();
            // innermost known-size ancestor end
            let mut anc = l.parent;
            while let Some(a) = anc {
                if !lay[a].unknown {
                    break;
                }
                anc = lay[a].parent;
            }
            let Some(anc) = anc else {
                c.skipped = true;
                c.exclude("overrun_victim_has_no_known_size_ancestor");
                return Ok(());
            };
            if lay[anc].index != l.parent.unwrap() {
                c.label_n("overrun_through_unknown_size_master", 8);
            }
            let parent_end = lay[anc].payload_end;
            let new_size = (parent_end - l.header_end) as u64 + 1 + t.below(20) as u64;
            let sv = ref_vint(new_size, 4).unwrap();
            bytes[l.id_end..l.header_end].copy_from_slice(&sv);
            // make the payload available so that this is not also an end-of-file condition
            bytes.extend(std::iter::repeat(0x20).take(new_size as usize + 4));
            fault_at = Some((ps[v], l.tag_start, l.id));
        }
        Fault::Oversize => {
            // a root master header declaring more than the limit, appended after the document (or standing alone)
            let roots: Vec<&Elem> = spec.elems.iter().filter(|e| e.is_root() && e.ty == Ty::Master).collect();
            let r = roots[t.below(roots.len())];
            let m = limit_choice.map(|x| x as u64).unwrap_or(4_000_000_000);
            oversize_decl = match t.below(4) {
                0 => m + 1,
                1 => m + 1 + t.below(1000) as u64,
                2 => (1u64 << 56) - 2,
                _ => m * 2 + 7,
            };
            // every other declared size must stay within the limit, else stand alone
            let max_decl = lay.iter().map(|l| (l.payload_end - l.header_end) as u64).max().unwrap_or(0);
            if t.chance(1, 3) || max_decl > m {
                bytes.clear();
                lay.clear();
            }
            let start = bytes.len();
            bytes.extend_from_slice(&id_bytes(r.id));
            let w = size_min_width(oversize_decl).max(1 + t.below(8)).min(8);
            bytes.extend_from_slice(&ref_vint(oversize_decl, w).unwrap());
            bytes.extend_from_slice(&t.bytes(3));
            let fp = if start == 0 { 0 } else { fl.len() };
            fault_at = Some((fp, start, r.id));
        }
        Fault::None => {}
    }
    flat = if fault == Fault::Oversize && fault_at.map(|f| f.1) == Some(0) { vec![] } else { fl };
    pos = ps;
    let _ = pos;
    c.label(match fault {
        Fault::None => "fault_none",
        Fault::UnknownId => "fault_unknown_id",
        Fault::Misplaced => "fault_misplaced",
        Fault::Overrun => "fault_overrun",
        Fault::Oversize => "fault_oversize",
        Fault::UnknownIdOverrun => "fault_unknown_id_and_overrun",
    });
    c.label(if d.spec.is_rich() { "spec_macro_derived" } else { "spec_generated" });
    c.label_if(limit_choice.is_none(), "limit_untouched");
    c.key(&(&bytes, limit_choice));
    c.sample_with(|| format!("{:?} at {:?} limit {:?} | {} | bytes({}) {}", fault, fault_at, limit_choice, describe_doc(&d), bytes.len(), hex(&bytes[..bytes.len().min(160)])));
    let max_size = match limit_choice {
        None => MaxSize::Untouched,
        Some(m) => MaxSize::Set(Some(m)),
    };
    // with a small limit even valid payloads may exceed it: only the oversize fault uses small limits
    // other faults: default limit, unless some byte sequence of the input could be read as a multi-MiB size under a tolerant setting
    let max_size = if fault == Fault::Oversize { max_size } else { safe_max_size(&bytes, MaxSize::Untouched).0 };
    let own = match fault {
        Fault::UnknownId | Fault::UnknownIdOverrun => TOL_IDS,
        Fault::Misplaced => TOL_HIER,
        Fault::Overrun => TOL_OVER,
        _ => 0,
    };
    let mut units = 0;
    let mut reached = 0;
    let respell = t.chance(1, 3);
    c.label_if(respell, "tolerance_slice_respelled");
    with_spec!(d.spec, T => {
        for tol in ALL_TOL {
            let cfg = ReadCfg { tolerate: tol, max_size: max_size.clone(), ..ReadCfg::default() };
            let obs = read_all::<T>(&bytes, &cfg);
            units += 1;
            // the same set of classes spelled differently (reverse order, each class twice) is the same configuration
            if tol != 0 && respell {
                let obs2 = read_all::<T>(&bytes, &ReadCfg { tolerate: tol | TOL_RESPELLED, ..cfg.clone() });
                if obs2 != obs {
                    return Err(format!("allow_errors() given the classes {:03b} in reverse order and each twice reads differently\n  once:  {}\n  twice: {}\n  bytes: {}", tol, render_obs(&obs), render_obs(&obs2), hex(&bytes[..bytes.len().min(200)])));
                }
            }
            let items = items_of(&obs);
            let err = first_err(&obs);
            let ctx = |m: String| format!("{}\n  fault {:?} at {:?}, tolerated {:03b}, limit {:?}\n  observed: {}\n  doc: {}\n  bytes: {}", m, fault, fault_at, tol, max_size, render_obs(&obs), render_forest(&d.forest), hex(&bytes[..bytes.len().min(200)]));
            if let Some(Obs::Panic(p)) = err {
                return Err(ctx(format!("iterator panicked: {}", p)));
            }
            // rule 2
            if let Some(Obs::Err(e)) = err {
                if kind_of(e) & tol != 0 {
                    return Err(ctx(format!("error kind {} returned although its class is tolerated", e.kind())));
                }
            }
            if tol & TOL_IDS == 0 && has_raw(&items) {
                return Err(ctx("raw tag emitted although unknown ids are not tolerated".into()));
            }
            match fault {
                Fault::None => {
                    if err.is_some() || items != flat {
                        return Err(ctx("a valid document is not read completely / identically under this tolerance setting".into()));
                    }
                }
                Fault::UnknownIdOverrun => {
                    // the id check comes first; with unknown ids tolerated the overrun must still be reported, unless that is tolerated too
                    let (fp, start, id) = fault_at.unwrap();
                    reached += 1;
                    let ok = match err {
                        Some(Obs::Err(ErrK::InvalidTagId { position, tag_id })) => tol & TOL_IDS == 0 && *position == start && *tag_id == id,
                        Some(Obs::Err(ErrK::OversizedChild { position, tag_id, size })) => tol & TOL_IDS != 0 && tol & TOL_OVER == 0 && *position == start && *tag_id == id && *size as u64 == oversize_decl,
                        _ => tol & TOL_IDS != 0 && tol & TOL_OVER != 0,
                    };
                    if !ok {
                        return Err(ctx(format!("element at offset {} has an id outside the specification AND overruns its known-size parent: expected {}", start, if tol & TOL_IDS == 0 { "InvalidTagId" } else if tol & TOL_OVER == 0 { "OversizedChildElement (tolerating unknown ids must not silence the overrun)" } else { "no error of these two kinds" })));
                    }
                    let must = flat[..fp].iter().rposition(|f| !f.is_end()).map(|x| x + 1).unwrap_or(0);
                    if items.len() < must || items[..must] != flat[..must] {
                        return Err(ctx("items before the doubly faulty element differ from the document's prefix".into()));
                    }
                }
                Fault::Oversize => {
                    let (fp, start, id) = fault_at.unwrap();
                    reached += 1;
                    match err {
                        Some(Obs::Err(ErrK::InvalidTagSize { position, tag_id, size })) if *position == start && *tag_id == id && *size as u64 == oversize_decl => {}
                        _ => return Err(ctx(format!("declared size {} above the limit must give InvalidTagSize at offset {} for {:#x} whatever is tolerated", oversize_decl, start, id))),
                    }
                    if items != flat[..fp.min(flat.len())] {
                        return Err(ctx("items before the oversized element differ from the document".into()));
                    }
                }
                _ => {
                    let (fp, start, id) = fault_at.unwrap();
                    if own & tol == 0 {
                        reached += 1;
                        let ok = match (fault, err) {
                            (Fault::UnknownId, Some(Obs::Err(ErrK::InvalidTagId { position, tag_id }))) => *position == start && *tag_id == id,
                            (Fault::Misplaced, Some(Obs::Err(ErrK::Hierarchy { found, .. }))) => *found == id,
                            (Fault::Overrun, Some(Obs::Err(ErrK::OversizedChild { position, tag_id, .. }))) => *position == start && *tag_id == id,
                            _ => false,
                        };
                        if !ok {
                            return Err(ctx(format!("expected the {:?} fault's own error kind at offset {} (id {:#x})", fault, start, id)));
                        }
                        // Ends of unknown-size masters that only the faulty element would close may be missing (it is rejected before it closes anything)
                        let must = flat[..fp].iter().rposition(|f| !f.is_end()).map(|x| x + 1).unwrap_or(0);
                        if items.len() < must || items.len() > fp || items[..] != flat[..items.len()] {
                            return Err(ctx(format!("items before the fault differ from the document's prefix ({}..={} items expected)", must, fp)));
                        }
                    } else {
                        // own class tolerated: strict prefix must still be there (rule 5)
                        let must = flat[..fp].iter().rposition(|f| !f.is_end()).map(|x| x + 1).unwrap_or(0);
                        if items.len() < must || items[..must] != flat[..must] {
                            return Err(ctx("tolerating the fault's class lost tags that the strict parse delivers".into()));
                        }
                        c.label("own_class_tolerated");
                    }
                }
            }
            c.checks += 1;
        }
    });
    c.units = units;
    c.nontrivial_units = reached;
    Ok(())
}

fn stage_limit(i: &Input, c: &mut Case) -> Result<(), String> {
    // exact threshold of the size limit on master headers (no payload is allocated for masters), at root, inside a known-size parent
    // that the element overruns, and inside an unknown-size parent, under every subset of tolerated classes: no tolerance switch
    // relaxes the limit (older replay files carry three arguments: root, strict)
    let a = i.args();
    let (m_idx, delta, wsel) = (a[0], a[1], a[2]);
    let tol = a.get(3).copied().unwrap_or(0) as u8;
    let place = a.get(4).copied().unwrap_or(0);
    crate::dynspec::set_current(crate::gen::rich());
    let limits: [Option<usize>; 6] = [None, Some(0), Some(5), Some(127), Some(4096), Some(1 << 30)];
    let lim = limits[m_idx as usize];
    let m = lim.map(|x| x as u64).unwrap_or(4_000_000_000);
    let decl = match delta {
        0 => m,
        1 => m + 1,
        2 => m.saturating_sub(1),
        3 => (1u64 << 56) - 2,
        _ => m + 2,
    };
    let w = (size_min_width(decl) + wsel as usize).min(8);
    const BODY: u64 = 0x18538067;
    const GROUP: u64 = 0x1f43b675;
    let (bytes, id, at) = if place == 0 {
        let mut b = id_bytes(BODY);
        b.extend_from_slice(&ref_vint(decl, w).unwrap());
        (b, BODY, 0usize)
    } else {
        let mut g = id_bytes(GROUP);
        g.extend_from_slice(&ref_vint(decl, w).unwrap());
        let mut b = id_bytes(BODY);
        if place == 1 {
            b.extend_from_slice(&ref_vint(g.len() as u64, 1).unwrap());
        } else {
            b.push(0xFF);
        }
        let at = b.len();
        b.extend_from_slice(&g);
        (b, GROUP, at)
    };
    let cfg = ReadCfg { tolerate: tol, max_size: match lim { None => MaxSize::Untouched, Some(x) => MaxSize::Set(Some(x)) }, ..ReadCfg::default() };
    let obs = read_all::<crate::dynspec::RichSpec>(&bytes, &cfg);
    c.checks += 1;
    c.nontrivial = true;
    c.label(match place { 0 => "limit_at_root", 1 => "limit_inside_known_size_parent", _ => "limit_inside_unknown_size_parent" });
    c.label_if(tol != 0, "limit_with_tolerated_classes");
    c.sample_with(|| format!("{} header declaring {} bytes in a {}-byte size field, limit {:?}, tolerated {:03b}: {}", if place == 0 { "Body" } else if place == 1 { "Group inside a known-size Body" } else { "Group inside an unknown-size Body" }, decl, w, lim, tol, render_obs(&obs)));
    let want_fail = decl > m;
    // inside the known-size parent every declared size > 0 also overruns it: unless that class is tolerated either rejection is right
    let overrun_strict = place == 1 && decl > 0 && tol & TOL_OVER == 0;
    let fe = first_err(&obs);
    // a known-size parent whose own declared size is above the limit is what gets rejected
    if place == 1 && (bytes.len() - at) as u64 > m {
        return match fe {
            Some(Obs::Err(ErrK::InvalidTagSize { position: 0, tag_id: BODY, size })) if *size == bytes.len() - at => Ok(()),
            _ => Err(format!("limit {:?}, tolerated {:03b}: the parent declares {} bytes, expected InvalidTagSize for it, observed {}\n  bytes: {}", lim, tol, bytes.len() - at, render_obs(&obs), hex(&bytes))),
        };
    }
    let ok = match (want_fail, fe) {
        (true, Some(Obs::Err(ErrK::InvalidTagSize { position, tag_id, size }))) => *position == at && *tag_id == id && *size as u64 == decl,
        (_, Some(Obs::Err(ErrK::OversizedChild { position, tag_id, .. }))) => overrun_strict && *position == at && *tag_id == id,
        (false, None) => {
            let it = items_of(&obs);
            !overrun_strict && if place == 0 { it == vec![Flat::Start(BODY), Flat::End(BODY)] } else { it.len() == 4 && it[0] == Flat::Start(BODY) && it[1] == Flat::Start(GROUP) }
        }
        _ => false,
    };
    if ok {
        Ok(())
    } else {
        Err(format!("limit {:?}, tolerated {:03b}, declared {}: expected {}, observed {}\n  bytes: {}", lim, tol, decl, if want_fail { "InvalidTagSize at the element" } else if overrun_strict { "OversizedChildElement at the element" } else { "the element's Start" }, render_obs(&obs), hex(&bytes)))
    }
}

fn stage_mutated(i: &Input, c: &mut Case) -> Result<(), String> {
    let mut t = Tape::new(i.tape());
    let m = gen_mixed(&mut t, MixOpts { weights: [1, 1, 8, 1, 2, 1], ..MixOpts::default() });
    let (max_size, _) = safe_max_size(&m.bytes, MaxSize::Untouched);
    c.label(m.origin.label());
    c.key(&m.bytes);
    c.sample_with(|| describe_mixed(&m));
    let mut units = 0;
    let mut differ = 0;
    with_spec!(m.spec, T => {
        let strict = read_all::<T>(&m.bytes, &ReadCfg { max_size: max_size.clone(), ..ReadCfg::default() });
        let s_items = items_of(&strict);
        let starts_at_root = match ref_header(&m.bytes, 0) {
            RefHeader::Ok { id, .. } => m.spec.table().get(id).map(|e| e.is_root()).unwrap_or(false),
            _ => false,
        };
        c.label_if(starts_at_root, "starts_at_root");
        for tol in ALL_TOL {
            let cfg = ReadCfg { tolerate: tol, max_size: max_size.clone(), ..ReadCfg::default() };
            let obs = if tol == 0 { strict.clone() } else { read_all::<T>(&m.bytes, &cfg) };
            units += 1;
            let ctx = |msg: String| format!("{}\n  tolerated {:03b}\n  observed: {}\n  strict:   {}\n  input: {}", msg, tol, render_obs(&obs), render_obs(&strict), describe_mixed(&m));
            match first_err(&obs) {
                Some(Obs::Panic(p)) => return Err(ctx(format!("iterator panicked: {}", p))),
                Some(Obs::Runaway(n)) => return Err(ctx(format!("more than {} items", n))),
                Some(Obs::Err(e)) if kind_of(e) & tol != 0 => return Err(ctx(format!("error kind {} returned although its class is tolerated", e.kind()))),
                _ => {}
            }
            let items = items_of(&obs);
            if tol & TOL_IDS == 0 && has_raw(&items) {
                return Err(ctx("raw tag emitted although unknown ids are not tolerated".into()));
            }
            if starts_at_root && (items.len() < s_items.len() || items[..s_items.len()] != s_items[..]) {
                return Err(ctx("the strict parse's items are not a prefix of the more tolerant parse's items".into()));
            }
            if items.len() != s_items.len() {
                differ += 1;
            }
            c.checks += 1;
        }
    });
    c.units = units;
    c.nontrivial_units = differ;
    c.label_n("tolerant_parse_goes_further", differ);
    Ok(())
}

pub const STAGES: &[Stage] = &[
    Stage { name: "single_fault", f: stage_fault },
    Stage { name: "limit_threshold", f: stage_limit },
    Stage { name: "mutated", f: stage_mutated },
];

pub fn run(rc: &mut RunCtx) {
    // first, and on master headers only: whatever is wrong with the limit shows here before any stage in which a limit that is not
    // enforced makes the iterator allocate what a header declares
    rc.run_indexed(STAGES[1], 6 * 5 * 3 * 8 * 3, true, &|k| Input::Args(vec![(k / 15) % 6, (k / 3) % 5, k % 3, (k / 90) % 8, k / 720]));
    rc.run_pt(STAGES[0], rc.pick(160_000, 800_000), (96, 500));
    rc.run_pt(STAGES[2], rc.pick(160_000, 800_000), (96, 500));
    rc.require_label("single_fault", "overrun_through_unknown_size_master", 5_000);
    for l in ["fault_unknown_id", "fault_misplaced", "fault_overrun", "fault_oversize", "fault_unknown_id_and_overrun", "own_class_tolerated", "limit_untouched", "tolerance_slice_respelled"] {
        rc.require_label("single_fault", l, 20_000);
    }
    rc.require_label("mutated", "tolerant_parse_goes_further", 50_000);
    rc.require_label("mutated", "starts_at_root", 300_000);
    if !rc.quick() {
        rc.run_fuzz(Some(STAGES[2]), 300);
    }
}
