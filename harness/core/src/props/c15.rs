//! C15 — variable-length integer codec is a correct, canonical, total bijection.

use ebml_iterable::tools::{self, SignedVint};

use crate::refmodel::*;
use crate::runner::*;
use crate::tape::Tape;

pub const RULE: &str = "unsigned/signed vint encoders for every width 1..8 and the default width (the unsigned ones through every implementation of the Vint trait — u64, u32, u16, u8 — that can hold the value), decoders on byte slices of length 0..9, \
and the well-formed-id predicate, each compared with an independent codec on u128/i128. Exhaustive blocks (values < 2^23 quick / 2^28 thorough, \
|v| < 2^22 / 2^27 signed, all slices of length <= 3, ids < 2^24), the boundary lattice (±2 around every 2^(7k), 2^(7k-1), 2^(8k), 2^56, 2^63, 2^64-1) \
and proptest-generated random values/slices; one zero-filled 4 GiB + 16 byte buffer gives slices of 2^32-8 .. 2^32+16 bytes for every vint length (the answer depends on the vint at the start alone). Non-trivial: multi-byte encodings (value >= 2^7 or |v| >= 2^6), non-empty slices, ids >= 0x80; distinct by value (enumerations are distinct by construction).";

pub const ASSUMPTIONS: &[&str] = &[
    "as_signed_vint_with_length is called with widths 1..=8 only (as its callers do)",
    "at exactly v = -2^(7w-1) the statement ('strictly inside') leaves the verdict open: rejection or a correct round trip are both accepted (label signed_lower_boundary)",
];

fn with_len<T: tools::Vint>(v: T, w: usize) -> Result<Vec<u8>, String> {
    let r = match w {
        1 => v.as_vint_with_length::<1>().map(|a| a.to_vec()),
        2 => v.as_vint_with_length::<2>().map(|a| a.to_vec()),
        3 => v.as_vint_with_length::<3>().map(|a| a.to_vec()),
        4 => v.as_vint_with_length::<4>().map(|a| a.to_vec()),
        5 => v.as_vint_with_length::<5>().map(|a| a.to_vec()),
        6 => v.as_vint_with_length::<6>().map(|a| a.to_vec()),
        7 => v.as_vint_with_length::<7>().map(|a| a.to_vec()),
        8 => v.as_vint_with_length::<8>().map(|a| a.to_vec()),
        _ => unreachable!(),
    };
    r.map_err(|e| format!("{:?}", e))
}

/// the encoder is a trait implemented for u64, u32, u16 and u8: every implementation that can hold the value must behave alike
pub fn check_unsigned(v: u64) -> Result<u64, String> {
    let mut checks = check_unsigned_as(v, v, "u64")?;
    if v <= u32::MAX as u64 {
        checks += check_unsigned_as(v, v as u32, "u32")?;
    }
    if v <= u16::MAX as u64 {
        checks += check_unsigned_as(v, v as u16, "u16")?;
    }
    if v <= u8::MAX as u64 {
        checks += check_unsigned_as(v, v as u8, "u8")?;
    }
    Ok(checks)
}

fn check_unsigned_as<T: tools::Vint + Copy + std::panic::RefUnwindSafe>(v: u64, tv: T, ty: &str) -> Result<u64, String> {
    let mut checks = 0;
    // default width
    let d = guarded(|| tv.as_vint()).map_err(|p| format!("as_vint({}) panicked: {}", v, p))?;
    match (vint_min_width(v), d) {
        (Some(w), Ok(enc)) => {
            let want = ref_vint(v, w).unwrap();
            if enc != want {
                return Err(format!("as_vint({}) = {:02x?}, shortest encoding is {:02x?}", v, enc, want));
            }
            let back = guarded(|| tools::read_vint(&enc)).map_err(|p| format!("read_vint({:02x?}) panicked: {}", enc, p))?;
            match back {
                Ok(Some((bv, bl))) if bv == v && bl == w => {}
                other => return Err(format!("read_vint(as_vint({})) = {:?}, expected ({}, {})", v, other, v, w)),
            }
        }
        (None, Err(_)) => {}
        (Some(_), Err(e)) => return Err(format!("as_vint({}) rejected ({:?}) although the value is < 2^56", v, e)),
        (None, Ok(enc)) => return Err(format!("as_vint({}) = {:02x?} although the value needs more than 56 bits", v, enc)),
    }
    checks += 1;
    for w in 1..=8usize {
        let got = guarded(|| with_len(tv, w)).map_err(|p| format!("({}) as_vint_with_length::<{}>({}) panicked: {}", ty, w, v, p))?;
        match (ref_vint(v, w), got) {
            (Some(want), Ok(enc)) => {
                if enc != want {
                    return Err(format!("({}) as_vint_with_length::<{}>({}) = {:02x?}, expected {:02x?}", ty, w, v, enc, want));
                }
                let back = guarded(|| tools::read_vint(&enc)).map_err(|p| format!("read_vint({:02x?}) panicked: {}", enc, p))?;
                match back {
                    Ok(Some((bv, bl))) if bv == v && bl == w => {}
                    other => return Err(format!("read_vint({:02x?}) = {:?}, expected ({}, {})", enc, other, v, w)),
                }
            }
            (None, Err(_)) => {}
            (Some(_), Err(e)) => return Err(format!("({}) as_vint_with_length::<{}>({}) reports {} although the value fits", ty, w, v, e)),
            (None, Ok(enc)) => return Err(format!("({}) as_vint_with_length::<{}>({}) = {:02x?} although the value needs more bits", ty, w, v, enc)),
        }
        checks += 1;
    }
    Ok(checks)
}

pub fn check_signed(v: i64, c: &mut Case) -> Result<u64, String> {
    let mut checks = 0;
    let vi = v as i128;
    let mut min_strict: Option<usize> = None;
    for w in 1..=8usize {
        let half = 1i128 << (7 * w - 1);
        let strictly_inside = vi > -half && vi < half;
        let boundary = vi == -half;
        if strictly_inside && min_strict.is_none() {
            min_strict = Some(w);
        }
        let got = guarded(|| v.as_signed_vint_with_length(w)).map_err(|p| format!("as_signed_vint_with_length({}) of {} panicked: {}", w, v, p))?;
        match got {
            Ok(enc) => {
                if !(strictly_inside || boundary) {
                    return Err(format!("as_signed_vint_with_length({}) accepted {} = {:02x?}, outside the width's range", w, v, enc));
                }
                if boundary {
                    c.label_n("signed_lower_boundary_accepted", 1);
                }
                if enc.len() != w {
                    return Err(format!("as_signed_vint_with_length({}) of {} has {} bytes: {:02x?}", w, v, enc.len(), enc));
                }
                if Some(&enc) != ref_svint(v, w).as_ref() {
                    return Err(format!("as_signed_vint_with_length({}) of {} = {:02x?}, expected {:02x?}", w, v, enc, ref_svint(v, w)));
                }
                let back = guarded(|| tools::read_signed_vint(&enc)).map_err(|p| format!("read_signed_vint({:02x?}) [= {} in width {}] panicked: {}", enc, v, w, p))?;
                match back {
                    Ok(Some((bv, bl))) if bv == v && bl == w => {}
                    other => return Err(format!("read_signed_vint({:02x?}) = {:?}, expected ({}, {})", enc, other, v, w)),
                }
            }
            Err(e) => {
                if strictly_inside {
                    return Err(format!("as_signed_vint_with_length({}) rejects {} ({}) although it is strictly inside the range", w, v, e));
                }
                if boundary {
                    c.label_n("signed_lower_boundary_rejected", 1);
                }
            }
        }
        checks += 1;
    }
    let d = guarded(|| v.as_signed_vint()).map_err(|p| format!("as_signed_vint({}) panicked: {}", v, p))?;
    match (min_strict, d) {
        (Some(w), Ok(enc)) => {
            // at the lower boundary of width w-1 the shorter width is also acceptable
            let lower_ok = w >= 2 && vi == -(1i128 << (7 * (w - 1) - 1));
            if !(enc.len() == w || (lower_ok && enc.len() == w - 1)) {
                return Err(format!("as_signed_vint({}) uses {} bytes ({:02x?}); the shortest width strictly containing it is {}", v, enc.len(), enc, w));
            }
            let back = guarded(|| tools::read_signed_vint(&enc)).map_err(|p| format!("read_signed_vint({:02x?}) panicked: {}", enc, p))?;
            match back {
                Ok(Some((bv, bl))) if bv == v && bl == enc.len() => {}
                other => return Err(format!("read_signed_vint(as_signed_vint({}) = {:02x?}) = {:?}", v, enc, other)),
            }
        }
        (None, Err(_)) => {}
        (None, Ok(enc)) => {
            // only legal at exactly -2^55
            if vi != -(1i128 << 55) {
                return Err(format!("as_signed_vint({}) = {:02x?} although no width holds the value", v, enc));
            }
            let back = guarded(|| tools::read_signed_vint(&enc)).map_err(|p| format!("read_signed_vint panicked: {}", p))?;
            if !matches!(back, Ok(Some((bv, 8))) if bv == v) {
                return Err(format!("as_signed_vint({}) = {:02x?} does not decode back: {:?}", v, enc, back));
            }
        }
        (Some(w), Err(e)) => return Err(format!("as_signed_vint({}) rejected ({}) although width {} holds it", v, e, w)),
    }
    checks += 1;
    Ok(checks)
}

pub fn check_slice(b: &[u8]) -> Result<u64, String> {
    let r = guarded(|| tools::read_vint(b)).map_err(|p| format!("read_vint({:02x?}) panicked: {}", b, p))?;
    let want = ref_read_vint(b);
    match (&want, &r) {
        (VintRead::NeedMore, Ok(None)) => {}
        (VintRead::Bad, Err(_)) => {}
        (VintRead::Ok { value, len }, Ok(Some((v, l)))) if value == v && len == l && *l <= b.len() => {}
        _ => return Err(format!("read_vint({:02x?}) = {:?}, reference says {:?}", b, r, want)),
    }
    let s = guarded(|| tools::read_signed_vint(b)).map_err(|p| format!("read_signed_vint({:02x?}) panicked: {}", b, p))?;
    match (&want, &s) {
        (VintRead::NeedMore, Ok(None)) => {}
        (VintRead::Bad, Err(_)) => {}
        (VintRead::Ok { len, .. }, Ok(Some((v, l)))) => {
            let (wv, wl) = ref_read_svint(b).unwrap();
            if l != len || *l != wl || *v != wv {
                return Err(format!("read_signed_vint({:02x?}) = ({}, {}), reference says ({}, {})", b, v, l, wv, wl));
            }
        }
        _ => return Err(format!("read_signed_vint({:02x?}) = {:?} disagrees with read_vint = {:?} (reference {:?})", b, s, r, want)),
    }
    Ok(2)
}

pub fn check_id(x: u64) -> Result<u64, String> {
    let got = guarded(|| tools::is_vint(x)).map_err(|p| format!("is_vint({:#x}) panicked: {}", x, p))?;
    let want = ref_is_wellformed_id(x);
    if got != want {
        return Err(format!("is_vint({:#x}) = {}, but byte length {} its length marker", x, got, if want { "matches" } else { "does not match" }));
    }
    Ok(1)
}

// ---- stages ---------------------------------------------------------------------------------

const BLOCK: u64 = 256;

fn st_u_block(i: &Input, c: &mut Case) -> Result<(), String> {
    let base = i.args()[0] * BLOCK;
    for v in base..base + BLOCK {
        c.checks += check_unsigned(v)?;
    }
    c.units = BLOCK;
    c.nontrivial_units = (base..base + BLOCK).filter(|v| *v >= 128).count() as u64;
    c.sample_with(|| format!("unsigned values {}..{} in all widths", base, base + BLOCK));
    Ok(())
}

fn st_s_block(i: &Input, c: &mut Case) -> Result<(), String> {
    let base = (i.args()[0] as i64) * BLOCK as i64;
    for v in base..base + BLOCK as i64 {
        c.checks += check_signed(v, c)?;
    }
    c.units = BLOCK;
    c.nontrivial_units = (base..base + BLOCK as i64).filter(|v| *v >= 64 || *v < -64).count() as u64;
    c.sample_with(|| format!("signed values {}..{} in all widths", base, base + BLOCK as i64));
    Ok(())
}

fn st_id_block(i: &Input, c: &mut Case) -> Result<(), String> {
    let base = i.args()[0] * BLOCK;
    let mut t = 0;
    for v in base..base + BLOCK {
        c.checks += check_id(v)?;
        t += ref_is_wellformed_id(v) as u64;
    }
    c.units = BLOCK;
    c.nontrivial_units = (base..base + BLOCK).filter(|v| *v >= 128).count() as u64;
    c.label_n("id_wellformed", t);
    c.label_n("id_malformed", BLOCK - t);
    c.sample_with(|| format!("is_vint on {:#x}..{:#x}", base, base + BLOCK));
    Ok(())
}

/// all slices of length args[0] whose leading bytes are args[1] (length-1 prefix packed big-endian); last byte enumerated
fn st_slice_block(i: &Input, c: &mut Case) -> Result<(), String> {
    let a = i.args();
    let len = a[0] as usize;
    if len == 0 {
        c.checks += check_slice(&[])?;
        c.units = 1;
        c.label_n("slice_len0", 1);
        return Ok(());
    }
    let mut b = vec![0u8; len];
    for k in 0..len - 1 {
        b[k] = (a[1] >> (8 * (len - 2 - k))) as u8;
    }
    let mut need_more = 0;
    for last in 0..=255u8 {
        b[len - 1] = last;
        c.checks += check_slice(&b)?;
        if ref_read_vint(&b) == VintRead::NeedMore {
            need_more += 1;
        }
    }
    c.units = 256;
    c.nontrivial_units = 256;
    c.label_n("slice_need_more", need_more);
    c.sample_with(|| format!("all slices {:02x?}+[00..ff]", &b[..len - 1]));
    Ok(())
}

pub fn lattice_u() -> Vec<u64> {
    let mut v = Vec::new();
    let mut push = |x: i128| {
        if x >= 0 && x <= u64::MAX as i128 {
            v.push(x as u64);
        }
    };
    for d in -2i128..=2 {
        for k in 1..=9 {
            push((1i128 << (7 * k)) + d);
            push((1i128 << (7 * k - 1)) + d);
        }
        for k in 1..=8 {
            push((1i128 << (8 * k)) + d);
        }
        push((1i128 << 56) + d);
        push((1i128 << 63) + d);
        push((1i128 << 64) - 1 - d.abs());
        push(d.abs());
    }
    v.sort();
    v.dedup();
    v
}

pub fn lattice_s() -> Vec<i64> {
    let mut v = Vec::new();
    for x in lattice_u() {
        if x <= i64::MAX as u64 {
            v.push(x as i64);
            v.push(-(x as i64));
        } else {
            v.push(x as i64); // wraps to negative: extreme negatives incl. i64::MIN
        }
    }
    v.push(i64::MIN);
    v.push(i64::MAX);
    v.sort();
    v.dedup();
    v
}

fn st_u_one(i: &Input, c: &mut Case) -> Result<(), String> {
    let v = i.args()[0];
    c.checks += check_unsigned(v)?;
    c.nontrivial = v >= 128;
    c.label(if v >= 1 << 56 { "u_overflows" } else { "u_fits" });
    c.sample_with(|| format!("unsigned lattice value {} ({:#x})", v, v));
    Ok(())
}

fn st_s_one(i: &Input, c: &mut Case) -> Result<(), String> {
    let v = i.args()[0] as i64;
    c.checks += check_signed(v, c)?;
    c.nontrivial = v >= 64 || v < -64;
    c.sample_with(|| format!("signed lattice value {}", v));
    Ok(())
}

fn st_id_one(i: &Input, c: &mut Case) -> Result<(), String> {
    let v = i.args()[0];
    c.checks += check_id(v)?;
    c.nontrivial = v >= 128;
    c.label(if ref_is_wellformed_id(v) { "id_wellformed" } else { "id_malformed" });
    c.sample_with(|| format!("is_vint({:#x})", v));
    Ok(())
}

fn st_random(i: &Input, c: &mut Case) -> Result<(), String> {
    let mut t = Tape::new(i.tape());
    let v = crate::gen::gen_u64(&mut t);
    c.checks += check_unsigned(v)?;
    let s = crate::gen::gen_i64(&mut t);
    c.checks += check_signed(s, c)?;
    // slice with first byte per leading-zero class
    let lz = t.below(9);
    let len = t.below(10);
    let mut b = t.bytes(len);
    if len > 0 {
        b[0] = if lz == 8 { 0 } else { (0x80u8 >> lz) | (b[0] & (0x7Fu8 >> lz)) };
    }
    c.checks += check_slice(&b)?;
    // ids: a well-formed one perturbed
    let idlen = t.range(1, 8);
    let base = crate::gen::mk_id(idlen, 1 + t.below(100) as u64);
    let x = match t.below(5) {
        0 => base,
        1 => base >> 1,
        2 => base << 1,
        3 => t.u64(),
        _ => base ^ (1u64 << t.below(64)),
    };
    c.checks += check_id(x)?;
    c.nontrivial = v >= 128 || s.unsigned_abs() >= 64 || len > 1;
    c.key(&(v, s, &b, x));
    c.label_if(len > 0 && ref_read_vint(&b) == VintRead::NeedMore, "slice_need_more");
    c.label_if(len == 0, "slice_len0");
    c.label_if(len == 9, "slice_len9");
    c.label_if(lz == 8 && len > 0, "slice_zero_first_byte");
    c.label_if(v >= 1 << 56, "u_overflows");
    c.sample_with(|| format!("u={} s={} slice={:02x?} id={:#x}", v, s, b, x));
    Ok(())
}

/// Slices of 4 GiB and more (the rest of a large file handed over in one piece): the answer depends on the vint at the start alone.
/// One zero-filled buffer of 4 GiB + 16 bytes (never touched beyond its first page, so it costs address space only); for every vint
/// length 1..=8 and every slice length 2^32 + r, r = 0..=16, and 2^32 - 1: both decoders against the reference and against their own
/// answer for the 8/16-byte prefix.
fn st_giant_slices(_i: &Input, c: &mut Case) -> Result<(), String> {
    const N: usize = (1usize << 32) + 16;
    let layout = std::alloc::Layout::from_size_align(N, 8).unwrap();
    let p = unsafe { std::alloc::alloc_zeroed(layout) };
    if p.is_null() {
        c.exclude("no_address_space_for_a_4GiB_slice");
        c.units = 1;
        return Ok(());
    }
    struct Free(*mut u8, std::alloc::Layout);
    impl Drop for Free {
        fn drop(&mut self) {
            unsafe { std::alloc::dealloc(self.0, self.1) }
        }
    }
    let _free = Free(p, layout);
    let buf: &mut [u8] = unsafe { std::slice::from_raw_parts_mut(p, N) };
    let mut units = 0u64;
    for l in 1..=8usize {
        for fill in [0x00u8, 0x5a, 0xff] {
            for k in 0..16 {
                buf[k] = 0;
            }
            buf[0] = (1u8 << (8 - l)) | (fill & ((1u8 << (8 - l)).wrapping_sub(1)));
            for k in 1..l {
                buf[k] = fill;
            }
            let want = ref_read_vint(&buf[..16]);
            let lens: Vec<usize> = (0..=16usize).map(|r| (1usize << 32) + r).chain([(1usize << 32) - 1, (1usize << 32) - 8]).collect();
            for n in lens {
                let b = &buf[..n];
                let r = guarded(|| tools::read_vint(b)).map_err(|e| format!("read_vint(slice of {} bytes starting {:02x?}) panicked: {}", n, &b[..8], e))?;
                let ok = match (&want, &r) {
                    (VintRead::Bad, Err(_)) => true,
                    (VintRead::Ok { value, len }, Ok(Some((v, ll)))) => value == v && len == ll,
                    _ => false,
                };
                if !ok {
                    return Err(format!("read_vint(slice of 2^32{:+} bytes starting {:02x?}) = {:?}, reference says {:?}", n as i64 - (1i64 << 32), &b[..8], r, want));
                }
                let sr = guarded(|| tools::read_signed_vint(b)).map_err(|e| format!("read_signed_vint(slice of {} bytes starting {:02x?}) panicked: {}", n, &b[..8], e))?;
                let ok = match (&want, &sr) {
                    (VintRead::Bad, Err(_)) => true,
                    (VintRead::Ok { .. }, Ok(Some((v, ll)))) => ref_read_svint(&b[..16]) == Some((*v, *ll)),
                    _ => false,
                };
                if !ok {
                    return Err(format!("read_signed_vint(slice of 2^32{:+} bytes starting {:02x?}) = {:?}, reference says {:?}", n as i64 - (1i64 << 32), &b[..8], sr, ref_read_svint(&b[..16])));
                }
                units += 2;
            }
        }
    }
    c.units = units;
    c.nontrivial_units = units;
    c.checks += units;
    c.label_n("slice_of_4GiB_or_more", units);
    c.sample_with(|| "vint lengths 1..=8 x fill {00,5a,ff} x slice lengths 2^32-8, 2^32-1, 2^32+0..16".to_string());
    Ok(())
}

pub const STAGES: &[Stage] = &[
    Stage { name: "enum_unsigned_blocks", f: st_u_block },
    Stage { name: "enum_signed_blocks", f: st_s_block },
    Stage { name: "enum_id_blocks", f: st_id_block },
    Stage { name: "enum_slices", f: st_slice_block },
    Stage { name: "lattice_unsigned", f: st_u_one },
    Stage { name: "lattice_signed", f: st_s_one },
    Stage { name: "lattice_ids", f: st_id_one },
    Stage { name: "random", f: st_random },
    Stage { name: "giant_slices", f: st_giant_slices },
];

pub fn run(rc: &mut RunCtx) {
    let q = rc.quick();
    let lu = lattice_u();
    rc.run_indexed(STAGES[4], lu.len() as u64, true, &|i| Input::Args(vec![lu[i as usize]]));
    let ls = lattice_s();
    rc.run_indexed(STAGES[5], ls.len() as u64, true, &|i| Input::Args(vec![ls[i as usize] as u64]));
    rc.run_indexed(STAGES[6], lu.len() as u64, true, &|i| Input::Args(vec![lu[i as usize]]));
    // exhaustive blocks
    let ubits = if q { 23 } else { 28 };
    rc.run_indexed(STAGES[0], (1u64 << ubits) / BLOCK, true, &|i| Input::Args(vec![i]));
    let sbits = if q { 22 } else { 27 };
    let nblocks = (2u64 << sbits) / BLOCK;
    rc.run_indexed(STAGES[1], nblocks, true, &|i| Input::Args(vec![(i as i64 - (nblocks / 2) as i64) as u64]));
    rc.run_indexed(STAGES[2], (1u64 << 24) / BLOCK, true, &|i| Input::Args(vec![i]));
    // slices: len 0, len 1 (prefix empty), len 2 (256 prefixes), len 3 (65536 prefixes, thorough)
    let maxlen = 3;
    let mut plan: Vec<(u64, u64)> = vec![(0, 0), (1, 0)];
    for p in 0..256u64 {
        plan.push((2, p));
    }
    if maxlen >= 3 {
        for p in 0..65536u64 {
            plan.push((3, p));
        }
    }
    rc.run_indexed(STAGES[3], plan.len() as u64, true, &|i| Input::Args(vec![plan[i as usize].0, plan[i as usize].1]));
    rc.run_indexed(STAGES[8], 1, true, &|_| Input::Args(vec![0]));
    rc.run_pt(STAGES[7], rc.pick(600_000, 10_000_000), (24, 24));
    rc.require_label("random", "slice_need_more", 20_000);
    rc.require_label("random", "slice_len9", 20_000);
    if !rc.quick() {
        rc.run_fuzz(None, 16);
    }
}
