//! C19 — a rejected write leaves no trace in the output.

use crate::drive::*;
use crate::gen::*;
use crate::model::*;
use crate::props::common::*;
use crate::refmodel::*;
use crate::runner::*;
use crate::tape::Tape;
use crate::with_spec;

pub const RULE: &str = "a valid writer call sequence V (all presentations: Start/End, Full, widths, unknown size) generated from a conformant forest, with 1-3 failing calls inserted at tape-chosen positions; \
each failing call is constructed to fail by contract: tag not allowed under the open chain (ref_match false), explicit width w with payload length >= 2^(7w)-1 (a leaf, or a Full master whose children are accepted one by one and whose content turns out too long when it is closed), unknown-size option (or the deprecated write_unknown_size call) on a non-master, raw tag with a malformed id \
(0, 1, 0x7F, 0x1FF, 0x8000, >= 2^63), End of a master that is not the innermost open one / with nothing open, Full master whose first / middle / last child is not allowed, is a stray End (of the master itself or of the enclosing one), or is a child master that is opened and never closed. Oracle: the inserted call returns a non-I/O error; \
every other call returns Ok as in the run without insertions; after every call the destination is a prefix of W(V); the final bytes after flush() are identical to W(V). \
Stage any_calls_without_the_refused_one: 1-4 arbitrary calls (any element as leaf / Start / End / Full with arbitrary children, default / width / unknown-size option, the deprecated unknown-size call, write_raw) are mixed into V; while some call returns a non-I/O error, the sequence is run again without the FIRST such call and both runs are compared from there on — verdict of every later call, destination length after each, flush result, final bytes — up to four times per case. Non-trivial: a failing call is made while >= 1 master is open and is followed by >= 1 successful write (stage 1), at least one call refused (stage 3); distinct by (V, insertions).";

pub const ASSUMPTIONS: &[&str] = &[
    "the destination never fails (I/O errors are outside the property)",
    "a known-size master whose content outgrows its explicit width can never be closed again, so 'the run without the failing call' does not exist for it: not generated",
];

#[derive(Clone, Debug)]
struct Ins {
    at: usize,
    op: WOp,
    kind: &'static str,
}

pub fn bad_child(t: &mut Tape, spec: &SpecTable, chain: &[u64]) -> Option<Flat> {
    let bad: Vec<&Elem> = spec.elems.iter().filter(|e| !ref_match(&e.path, chain)).collect();
    if bad.is_empty() {
        return None;
    }
    let e = bad[t.below(bad.len())];
    Some(if e.ty == Ty::Master {
        if t.chance(1, 2) {
            Flat::Start(e.id)
        } else {
            Flat::Full(e.id, vec![])
        }
    } else {
        let mut po = PayOpts { big_left: 0, huge: false, max_small: 6 };
        Flat::Leaf(e.id, gen_payload(t, e.ty, &mut po))
    })
}

pub fn good_children(t: &mut Tape, spec: &SpecTable, chain: &[u64], n: usize) -> Vec<Flat> {
    let cands: Vec<&Elem> = spec.elems.iter().filter(|e| e.ty != Ty::Master && ref_match(&e.path, chain)).collect();
    let mut v = Vec::new();
    if cands.is_empty() {
        return v;
    }
    for _ in 0..n {
        let e = cands[t.below(cands.len())];
        let mut po = PayOpts { big_left: 0, huge: false, max_small: 6 };
        v.push(Flat::Leaf(e.id, gen_payload(t, e.ty, &mut po)));
    }
    v
}

pub fn gen_failing(t: &mut Tape, spec: &SpecTable, open: &[u64]) -> Option<(WOp, &'static str)> {
    match t.below(8) {
        0 => bad_child(t, spec, open).map(|f| (WOp::Write(f, WOpt::Default), "tag_not_allowed_here")),
        1 => {
            // width too small for a string/binary payload (w = 1: length >= 127; w = 2: >= 16383)
            let cands: Vec<&Elem> = spec.elems.iter().filter(|e| matches!(e.ty, Ty::S | Ty::B) && ref_match(&e.path, open)).collect();
            let (id, ty) = if cands.is_empty() { (gen_unknown_id(t, spec), None) } else { let e = cands[t.below(cands.len())]; (e.id, Some(e.ty)) };
            let (w, len) = if t.chance(1, 6) { (2u8, 16383 + t.below(3)) } else { (1u8, 127 + t.below(40)) };
            // the same for a Full master: its children are accepted and buffered one by one, the width only turns out too small when the master is closed
            if t.chance(1, 3) {
                let ms: Vec<(&Elem, Vec<&Elem>)> = spec
                    .elems
                    .iter()
                    .filter(|m| m.ty == Ty::Master && ref_match(&m.path, open))
                    .map(|m| {
                        let mut chain = open.to_vec();
                        chain.push(m.id);
                        (m, spec.elems.iter().filter(|e| matches!(e.ty, Ty::S | Ty::B) && ref_match(&e.path, &chain)).collect::<Vec<_>>())
                    })
                    .filter(|x| !x.1.is_empty())
                    .collect();
                if !ms.is_empty() {
                    let (m, kids) = &ms[t.below(ms.len())];
                    let mut chain = open.to_vec();
                    chain.push(m.id);
                    // 1-3 children that together reach the limit (header bytes count too, so the payloads alone already suffice)
                    let k = 1 + t.below(3);
                    let mut ch = Vec::new();
                    for j in 0..k {
                        let e = kids[t.below(kids.len())];
                        let l = if j == 0 { len - (len / k) * (k - 1) } else { len / k };
                        ch.push(Flat::Leaf(e.id, if e.ty == Ty::S { Payload::S(gen_string(t, l)) } else { Payload::B(gen_binary(t, l)) }));
                    }
                    return Some((WOp::Write(Flat::Full(m.id, ch), WOpt::Width(w)), "full_master_content_not_representable_in_width"));
                }
            }
            let p = match ty {
                Some(Ty::S) => Payload::S(gen_string(t, len)),
                Some(_) => Payload::B(gen_binary(t, len)),
                None => Payload::Raw(gen_binary(t, len)),
            };
            Some((WOp::Write(Flat::Leaf(id, p), WOpt::Width(w)), "size_not_representable_in_width"))
        }
        2 => {
            let cands: Vec<&Elem> = spec.elems.iter().filter(|e| e.ty != Ty::Master).collect();
            if cands.is_empty() {
                return None;
            }
            let e = cands[t.below(cands.len())];
            let mut po = PayOpts { big_left: 0, huge: false, max_small: 6 };
            let leaf = Flat::Leaf(e.id, gen_payload(t, e.ty, &mut po));
            // the deprecated write_unknown_size() makes the same promise
            if t.chance(1, 3) {
                return Some((WOp::UnknownDeprecated(leaf), "unknown_size_on_non_master_deprecated_call"));
            }
            Some((WOp::Write(leaf, WOpt::Unknown), "unknown_size_on_non_master"))
        }
        3 => {
            let id = *t.pick(&[0u64, 1, 0x7F, 0x1FF, 0x8000, 0x3FFF, 1 << 63, u64::MAX, 0x0100, 0x20_0000_00]);
            if spec.get(id).is_some() || ref_is_wellformed_id(id) {
                return None;
            }
            // (write_raw(id, data) does not look at the id at all — `write_raw(0, ..)` returns Ok and emits a size and payload with no
            // id bytes — so it never is a *rejected* call and the property, which speaks about calls that return an error, is silent on it)
            Some((WOp::Write(Flat::Leaf(id, Payload::Raw(t.bytes(3))), WOpt::Default), "malformed_raw_id"))
        }
        4 => {
            // End of a master that is not the innermost open one (or nothing open)
            let masters = spec.masters();
            let wrong: Vec<u64> = masters.iter().copied().filter(|m| open.last() != Some(m)).collect();
            if wrong.is_empty() {
                return None;
            }
            // prefer an id that IS open further out
            let outer: Vec<u64> = open.iter().rev().skip(1).copied().filter(|m| open.last() != Some(m)).collect();
            let id = if !outer.is_empty() && t.chance(2, 3) { outer[t.below(outer.len())] } else { wrong[t.below(wrong.len())] };
            Some((WOp::Write(Flat::End(id), WOpt::Default), "end_of_not_innermost_master"))
        }
        5 => {
            // Full master allowed here with a child that closes the master itself (or the enclosing one), or opens a master and never closes it:
            // the call must fail (the master cannot be closed at the end), and nothing of it may have been handed over by then
            let ms: Vec<&Elem> = spec.elems.iter().filter(|e| e.ty == Ty::Master && ref_match(&e.path, open)).collect();
            if ms.is_empty() {
                return None;
            }
            let m = ms[t.below(ms.len())];
            // a master nested in a master of the same id could be closed in place of the Full one: then the call need not fail
            if open.last() == Some(&m.id) {
                return None;
            }
            let mut chain = open.to_vec();
            chain.push(m.id);
            let n = t.below(4);
            let mut ch = good_children(t, spec, &chain, n);
            let bad = match t.below(3) {
                0 => Flat::End(m.id),
                1 => match open.last() {
                    Some(o) => Flat::End(*o),
                    None => Flat::End(m.id),
                },
                _ => {
                    let xs: Vec<&Elem> = spec.elems.iter().filter(|e| e.ty == Ty::Master && e.id != m.id && ref_match(&e.path, &chain)).collect();
                    if xs.is_empty() {
                        Flat::End(m.id)
                    } else {
                        Flat::Start(xs[t.below(xs.len())].id)
                    }
                }
            };
            let pos = match t.below(3) {
                0 => 0,
                1 => ch.len() / 2,
                _ => ch.len(),
            };
            ch.insert(pos.min(ch.len()), bad);
            let opt = if t.chance(1, 4) { WOpt::Width(1 + t.below(8) as u8) } else { WOpt::Default };
            Some((WOp::Write(Flat::Full(m.id, ch), opt), "full_with_stray_end_or_unclosed_start"))
        }
        _ => {
            // Full master allowed here whose k-th child is not allowed
            let ms: Vec<&Elem> = spec.elems.iter().filter(|e| e.ty == Ty::Master && ref_match(&e.path, open)).collect();
            if ms.is_empty() {
                return None;
            }
            let m = ms[t.below(ms.len())];
            let mut chain = open.to_vec();
            chain.push(m.id);
            let bad = if t.chance(1, 3) {
                // a raw child whose id is not a well-formed EBML id
                let id = *t.pick(&[0u64, 1, 0x7F, 0x1FF, 0x8000, 0x3FFF, 1 << 63, u64::MAX, 0x4a]);
                if spec.get(id).is_some() || ref_is_wellformed_id(id) {
                    bad_child(t, spec, &chain)?
                } else {
                    Flat::Leaf(id, Payload::Raw(t.bytes(2)))
                }
            } else {
                bad_child(t, spec, &chain)?
            };
            let n = t.below(4);
            let mut ch = good_children(t, spec, &chain, n);
            let pos = match t.below(3) {
                0 => 0,
                1 => ch.len() / 2,
                _ => ch.len(),
            };
            ch.insert(pos.min(ch.len()), bad);
            let opt = if t.chance(1, 4) { WOpt::Width(1 + t.below(8) as u8) } else { WOpt::Default };
            Some((WOp::Write(Flat::Full(m.id, ch), opt), "full_with_invalid_child"))
        }
    }
}

fn stage(i: &Input, c: &mut Case) -> Result<(), String> {
    let mut t = Tape::new(i.tape());
    let to = TreeOpts { max_nodes: 24, pay: PayOpts { big_left: 0, huge: false, max_small: 20 }, deep: t.chance(1, 2), ..TreeOpts::default() };
    let d = gen_doc(&mut t, SpecOpts::default(), to, EncOpts { widths: true, unknown: true, full: true, noncanonical: false });
    note_cleared(c, &d);
    let v = forest_ops(&d.forest);
    // open chain before each op of V
    let mut chains: Vec<Vec<u64>> = Vec::with_capacity(v.len() + 1);
    let mut open: Vec<u64> = Vec::new();
    for op in &v {
        chains.push(open.clone());
        match op {
            WOp::Write(Flat::Start(id), _) => open.push(*id),
            WOp::Write(Flat::End(_), _) => {
                open.pop();
            }
            _ => {}
        }
    }
    chains.push(open.clone());
    let n_ins = 1 + t.below(3);
    let mut ins: Vec<Ins> = Vec::new();
    for _ in 0..n_ins {
        let at = t.below(v.len() + 1);
        if let Some((op, kind)) = gen_failing(&mut t, d.spec.table(), &chains[at]) {
            ins.push(Ins { at, op, kind });
        }
    }
    ins.sort_by_key(|x| x.at);
    if ins.is_empty() {
        c.skipped = true;
        c.exclude("no_failing_call_constructible");
        return Ok(());
    }
    for x in &ins {
        c.label(x.kind);
    }
    c.label(if d.spec.is_rich() { "spec_macro_derived" } else { "spec_generated" });
    let followed = ins.iter().any(|x| !chains[x.at].is_empty() && x.at < v.len());
    c.nontrivial = followed;
    c.label_if(followed, "failing_call_inside_open_master");
    c.key(&(d.spec.table().elems.clone(), &format!("{:?}{:?}", v, ins)));
    c.sample_with(|| format!("spec {} | V = {} | insertions {:?}", spec_brief(d.spec.table()), render_ops(&v), ins.iter().map(|x| format!("@{} {} [{}]", x.at, x.op.short(), x.kind)).collect::<Vec<_>>()));

    with_spec!(d.spec, T => {
        // reference run: V alone, remembering what the destination held after every call
        let mut wref = Wr::<T>::new(RecDest::new());
        let mut ref_len: Vec<usize> = Vec::with_capacity(v.len());
        for (k, op) in v.iter().enumerate() {
            wref.apply(op).map_err(|e| format!("the valid sequence V itself failed at call #{}: {:?}\n  V: {}", k, e, render_ops(&v)))?;
            ref_len.push(wref.dest().len());
        }
        let reference = wref.finish().map_err(|e| format!("the valid sequence V itself failed at flush: {:?}\n  V: {}", e, render_ops(&v)))?;
        let mut w = Wr::<T>::new(RecDest::new());
        let mut hist: Vec<String> = Vec::new();
        let mut next_ins = 0;
        let ctx = |hist: &Vec<String>| format!("\n  history: {}\n  V: {}", hist.join(" ; "), render_ops(&v));
        for k in 0..=v.len() {
            while next_ins < ins.len() && ins[next_ins].at == k {
                let x = &ins[next_ins];
                next_ins += 1;
                let r = w.apply(&x.op);
                c.checks += 1;
                hist.push(format!("[inserted {} -> {:?}]", x.op.short(), r.as_ref().err().map(|e| e.kind())));
                match r {
                    Ok(()) => {
                        c.label("unexpectedly_accepted");
                        return Err(format!("a call that must fail by contract ({}) was accepted: {}{}", x.kind, x.op.short(), ctx(&hist)));
                    }
                    Err(WErr::Panic(p)) => return Err(format!("failing call {} panicked: {}{}", x.op.short(), p, ctx(&hist))),
                    Err(e) if e.is_io() => return Err(format!("failing call {} reported an I/O error although the destination never fails: {:?}{}", x.op.short(), e, ctx(&hist))),
                    Err(_) => {}
                }
                if !reference.starts_with(w.dest()) {
                    return Err(format!("after the rejected call {} the destination is no longer a prefix of the output of V{}\n  destination: {}\n  W(V):        {}", x.op.short(), ctx(&hist), hex(w.dest()), hex(&reference[..reference.len().min(300)])));
                }
            }
            if k == v.len() {
                break;
            }
            let r = w.apply(&v[k]);
            c.checks += 1;
            hist.push(format!("{} -> {}", v[k].short(), if r.is_ok() { "ok" } else { "ERR" }));
            if let Err(e) = r {
                return Err(format!("call #{} {} of V succeeds on its own but fails after a rejected call: {:?}{}", k, v[k].short(), e, ctx(&hist)));
            }
            if !reference.starts_with(w.dest()) {
                return Err(format!("after call #{} {} the destination is no longer a prefix of the output of V{}\n  destination: {}\n  W(V):        {}", k, v[k].short(), ctx(&hist), hex(&w.dest()[..w.dest().len().min(300)]), hex(&reference[..reference.len().min(300)])));
            }
            // "all later calls behave accordingly": the same bytes have been handed over as in the run without the rejected calls
            if w.dest().len() != ref_len[k] {
                return Err(format!("after call #{} {} the destination holds {} bytes, but {} in the run without the rejected call(s): later calls do not behave as if the rejected call had never been made{}", k, v[k].short(), w.dest().len(), ref_len[k], ctx(&hist)));
            }
        }
        let got = w.finish().map_err(|e| format!("flush() fails after rejected calls: {:?}{}", e, ctx(&hist)))?;
        c.checks += 1;
        if got != reference {
            let kx = got.iter().zip(reference.iter()).take_while(|(a, b)| a == b).count();
            return Err(format!("final output differs from W(V) at byte {} ({} vs {} bytes){}\n  got:  {}\n  W(V): {}", kx, got.len(), reference.len(), ctx(&hist), hex(&got[..got.len().min(300)]), hex(&reference[..reference.len().min(300)])));
        }
        Ok(())
    })
}


// ---------------------------------------------------------------------------------------------
// a master End that fails because the content outgrew the explicit width: the master must stay open, unchanged

pub fn stage_failed_end(i: &Input, c: &mut Case) -> Result<(), String> {
    failed_end_case(i, c, true)
}

/// C10's view of the same scenario: the refused End leaves a known-size master open, so whatever the calls return, nothing of
/// that master may reach the destination
pub fn stage_failed_end_streaming(i: &Input, c: &mut Case) -> Result<(), String> {
    failed_end_case(i, c, false)
}

fn failed_end_case(i: &Input, c: &mut Case, check_verdicts: bool) -> Result<(), String> {
    let mut t = Tape::new(i.tape());
    let to = TreeOpts { max_nodes: 20, pay: PayOpts { big_left: 0, huge: false, max_small: 12 }, deep: t.chance(1, 2), ..TreeOpts::default() };
    let mut d = gen_doc(&mut t, SpecOpts::default(), to, EncOpts { widths: true, unknown: true, full: false, noncanonical: false });
    let spec = d.spec.table().clone();
    // pick a master that is written as Start/End with known size and can hold a string/binary child
    fn rec(n: &Node, chain: &mut Vec<u64>, path: &mut Vec<usize>, out: &mut Vec<(Vec<usize>, Vec<u64>)>) {
        if !n.is_master() {
            return;
        }
        chain.push(n.id);
        if !n.enc.unknown && !n.enc.full {
            out.push((path.clone(), chain.clone()));
        }
        for (k, ch) in n.children().iter().enumerate() {
            path.push(k);
            rec(ch, chain, path, out);
            path.pop();
        }
        chain.pop();
    }
    let mut sites = Vec::new();
    for (k, n) in d.forest.iter().enumerate() {
        rec(n, &mut Vec::new(), &mut vec![k], &mut sites);
    }
    let usable: Vec<(Vec<usize>, Vec<u64>, Vec<(u64, Ty)>)> = sites
        .into_iter()
        .map(|(p, ch)| {
            let cands: Vec<(u64, Ty)> = spec.elems.iter().filter(|e| matches!(e.ty, Ty::S | Ty::B) && ref_match(&e.path, &ch)).map(|e| (e.id, e.ty)).collect();
            (p, ch, cands)
        })
        .filter(|x| !x.2.is_empty())
        .collect();
    if usable.is_empty() {
        c.skipped = true;
        c.exclude("no_master_that_can_hold_a_long_child");
        return Ok(());
    }
    let (path, _chain, cands) = usable[t.below(usable.len())].clone();
    let (cid, cty) = cands[t.below(cands.len())];
    let w = if t.chance(1, 8) { 2u8 } else { 1u8 };
    let len = if w == 1 { 127 + t.below(30) } else { 16383 + t.below(3) };
    let mk = |t: &mut Tape, n: usize| if cty == Ty::S { Payload::S(gen_string(t, n)) } else { Payload::B(gen_binary(t, n)) };
    {
        let mut cur: &mut Node = &mut d.forest[path[0]];
        for &k in &path[1..] {
            cur = &mut cur.children_mut().unwrap()[k];
        }
        cur.enc.size_w = w;
        cur.enc.mark = true;
        let big = Node::leaf(cid, mk(&mut t, len));
        let chn = cur.children_mut().unwrap();
        let at = t.below(chn.len() + 1);
        chn.insert(at, big);
    }
    fix_widths(&mut d.forest);
    let ops = forest_ops(&d.forest);
    // index of the marked master's End: the Start carries Width(w) and is the only one whose content cannot fit
    let mut stack: Vec<(usize, bool)> = Vec::new();
    let mut end_at = None;
    let mut marked_start = None;
    {
        // find the op index of the marked master's Start by walking the forest in the same order as forest_ops
        fn walk(n: &Node, k: &mut usize, found: &mut Option<usize>) {
            let me = *k;
            match &n.kind {
                NodeKind::Leaf(_) => *k += 1,
                NodeKind::Master(ch) => {
                    if n.enc.full && !n.enc.unknown {
                        *k += 1;
                    } else {
                        if n.enc.mark {
                            *found = Some(me);
                        }
                        *k += 1;
                        for x in ch {
                            walk(x, k, found);
                        }
                        *k += 1;
                    }
                }
            }
        }
        let mut k = 0;
        for n in &d.forest {
            walk(n, &mut k, &mut marked_start);
        }
    }
    let Some(ms) = marked_start else { return Err("harness: marked master not found".into()) };
    for (k, op) in ops.iter().enumerate() {
        match op {
            WOp::Write(Flat::Start(_), _) => stack.push((k, k == ms)),
            WOp::Write(Flat::End(_), _) => {
                if let Some((_, m)) = stack.pop() {
                    if m {
                        end_at = Some(k);
                    }
                }
            }
            _ => {}
        }
    }
    let Some(e) = end_at else { return Err("harness: End of the marked master not found".into()) };
    c.nontrivial = true;
    c.label(if w == 1 { "width1_content_127plus" } else { "width2_content_16383plus" });
    c.key(&(spec.elems.clone(), &format!("{:?}", &ops[..=e])));
    c.sample_with(|| format!("spec {} | ops up to the failing End: {}", spec_brief(&spec), render_ops(&ops[..=e])));
    with_spec!(d.spec, T => {
        let mut wr = Wr::<T>::new(RecDest::new());
        for (k, op) in ops[..e].iter().enumerate() {
            wr.apply(op).map_err(|er| format!("call #{} {} of the valid prefix failed: {:?}\n  ops: {}", k, op.short(), er, render_ops(&ops[..=e])))?;
        }
        let before = wr.dest().to_vec();
        let end_op = &ops[e];
        let child = WOp::Write(Flat::Leaf(cid, mk(&mut t, 3)), WOpt::Default);
        // (flush() has to close the same master and must fail the same way, leaving it open and unchanged)
        let flush = WOp::Flush;
        let script: [(&WOp, bool); 8] = [(end_op, false), (end_op, false), (&child, true), (end_op, false), (&flush, false), (&child, true), (&flush, false), (end_op, false)];
        let mut hist = Vec::new();
        for (op, want_ok) in script {
            let r = wr.apply(op);
            c.checks += 1;
            hist.push(format!("{} -> {:?}", op.short(), r.as_ref().err().map(|x| x.kind())));
            let ok = match (&r, want_ok) {
                (Ok(()), true) => true,
                (Err(WErr::TagSize(_)), false) => true,
                _ => false,
            };
            if !ok && !check_verdicts && op == end_op && r.is_ok() {
                return Err(format!("the End of a master whose content ({}+ bytes) does not fit its {}-byte size field was accepted; history: {}", len, w, hist.join(" ; ")));
            }
            if !ok && check_verdicts {
                return Err(format!(
                    "after a master End was rejected because its content ({}+ bytes) does not fit the {}-byte size field, the writer no longer behaves as if that call had not been made: expected {}, history: {}\n  ops before: {}",
                    len, w, if want_ok { "Ok for a further child of the still-open master" } else { "the same TagSizeError again" }, hist.join(" ; "), render_ops(&ops[..e])
                ));
            }
            if wr.dest() != &before[..] {
                return Err(format!("{}: {}\n  ops before: {}", if check_verdicts { "the destination changed during rejected calls" } else { "content of a known-size master that could not be closed (so is still open) was handed to the destination" }, hist.join(" ; "), render_ops(&ops[..e])));
            }
        }
        Ok(())
    })
}

// ---------------------------------------------------------------------------------------------
// the statement itself as a metamorphic relation, with no knowledge of which calls must fail: arbitrary calls are mixed into a valid
// sequence; whenever one of them returns a non-I/O error, the same sequence is run again WITHOUT that one call, and from there on
// everything — the verdict of every later call, what the destination holds after each of them, the result of the final flush —
// must be identical

fn gen_any_flat(t: &mut Tape, spec: &SpecTable, depth: usize) -> Flat {
    let e = &spec.elems[t.below(spec.elems.len())];
    if e.ty != Ty::Master {
        let mut po = PayOpts { big_left: 0, huge: false, max_small: 8 };
        return Flat::Leaf(e.id, gen_payload(t, e.ty, &mut po));
    }
    match t.below(if depth == 0 { 4 } else { 3 }) {
        0 => Flat::Start(e.id),
        1 => Flat::End(e.id),
        2 => Flat::Full(e.id, vec![]),
        _ => {
            let n = t.below(4);
            Flat::Full(e.id, (0..n).map(|_| gen_any_flat(t, spec, depth + 1)).collect())
        }
    }
}

fn gen_any_call(t: &mut Tape, spec: &SpecTable, open: &[u64]) -> WOp {
    match t.weighted(&[6, 6, 3, 2, 1]) {
        0 => gen_failing(t, spec, open).map(|x| x.0).unwrap_or_else(|| WOp::Write(gen_any_flat(t, spec, 0), WOpt::Default)),
        1 => {
            let f = gen_any_flat(t, spec, 0);
            let opt = match t.weighted(&[4, 2, 3]) {
                0 => WOpt::Default,
                1 => WOpt::Width(1 + t.below(8) as u8),
                _ => WOpt::Unknown,
            };
            WOp::Write(f, opt)
        }
        2 => {
            // a Full master the open chain allows, children partly allowed: the shape in which something may already have been buffered
            // (or handed over) when the call turns out to fail
            let ms: Vec<&Elem> = spec.elems.iter().filter(|m| m.ty == Ty::Master && ref_match(&m.path, open)).collect();
            if ms.is_empty() {
                return WOp::Write(gen_any_flat(t, spec, 0), WOpt::Default);
            }
            let m = ms[t.below(ms.len())];
            let mut chain = open.to_vec();
            chain.push(m.id);
            let n = 1 + t.below(3);
            let mut ch = good_children(t, spec, &chain, n);
            if t.chance(2, 3) {
                if let Some(b) = bad_child(t, spec, &chain) {
                    let at = t.below(ch.len() + 1);
                    ch.insert(at, b);
                }
            }
            let opt = match t.weighted(&[3, 2, 3]) {
                0 => WOpt::Default,
                1 => WOpt::Width(1 + t.below(8) as u8),
                _ => WOpt::Unknown,
            };
            WOp::Write(Flat::Full(m.id, ch), opt)
        }
        3 => WOp::UnknownDeprecated(gen_any_flat(t, spec, 0)),
        _ => {
            let id = if t.chance(1, 2) { gen_unknown_id(t, spec) } else { *t.pick(&[0u64, 1, 0x7F, 0x1FF, 0x8000, 0xEC, 0xBF]) };
            WOp::Raw(id, t.bytes(3))
        }
    }
}

#[derive(Clone, Debug, PartialEq)]
struct Trace {
    verdicts: Vec<Option<WErr>>,
    dest_len: Vec<usize>,
    flush: Option<WErr>,
    bytes: Vec<u8>,
}

fn run_trace<T: crate::dynspec::Spec>(ops: &[WOp]) -> Trace {
    let mut w = Wr::<T>::new(RecDest::new());
    let mut verdicts = Vec::with_capacity(ops.len());
    let mut dest_len = Vec::with_capacity(ops.len());
    for op in ops {
        verdicts.push(w.apply(op).err());
        dest_len.push(w.dest().len());
    }
    let before = w.dest().to_vec();
    match w.finish() {
        Ok(b) => Trace { verdicts, dest_len, flush: None, bytes: b },
        Err(e) => Trace { verdicts, dest_len, flush: Some(e), bytes: before },
    }
}

fn stage_any_calls(i: &Input, c: &mut Case) -> Result<(), String> {
    let mut t = Tape::new(i.tape());
    let to = TreeOpts { max_nodes: 16, pay: PayOpts { big_left: 0, huge: false, max_small: 16 }, deep: t.chance(1, 2), ..TreeOpts::default() };
    let d = gen_doc(&mut t, SpecOpts::default(), to, EncOpts { widths: true, unknown: true, full: true, noncanonical: false });
    note_cleared(c, &d);
    let v = forest_ops(&d.forest);
    let mut chains: Vec<Vec<u64>> = Vec::with_capacity(v.len() + 1);
    let mut open: Vec<u64> = Vec::new();
    for op in &v {
        chains.push(open.clone());
        match op {
            WOp::Write(Flat::Start(id), _) => open.push(*id),
            WOp::Write(Flat::End(_), _) => {
                open.pop();
            }
            _ => {}
        }
    }
    chains.push(open.clone());
    let mut ops: Vec<WOp> = v.clone();
    let n_extra = 1 + t.below(4);
    let mut ins: Vec<(usize, WOp)> = Vec::new();
    for _ in 0..n_extra {
        let at = t.below(v.len() + 1);
        ins.push((at, gen_any_call(&mut t, d.spec.table(), &chains[at])));
    }
    ins.sort_by_key(|x| std::cmp::Reverse(x.0));
    for (at, op) in ins {
        ops.insert(at, op);
    }
    c.key(&(d.spec.table().elems.clone(), &format!("{:?}", ops)));
    c.sample_with(|| format!("spec {} | calls {}", spec_brief(d.spec.table()), render_ops(&ops)));
    c.label(if d.spec.is_rich() { "spec_macro_derived" } else { "spec_generated" });
    with_spec!(d.spec, T => {
        let mut cur = ops.clone();
        let mut a = run_trace::<T>(&cur);
        let mut removed = 0;
        for _round in 0..4 {
            if let Some(p) = a.verdicts.iter().find_map(|v| if let Some(WErr::Panic(m)) = v { Some(m.clone()) } else { None }) {
                return Err(format!("a writer call panicked: {}\n  calls: {}", p, render_ops(&cur)));
            }
            let Some(f) = a.verdicts.iter().position(|v| matches!(v, Some(e) if !e.is_io())) else { break };
            // the same calls without the refused one
            let mut without = cur.clone();
            let refused = without.remove(f);
            let b = run_trace::<T>(&without);
            c.checks += 1;
            removed += 1;
            c.label(match a.verdicts[f].as_ref().map(|e| e.kind()) {
                Some("UnexpectedTag") => "refused_UnexpectedTag",
                Some("TagSizeError") => "refused_TagSizeError",
                Some("TagIdError") => "refused_TagIdError",
                Some("UnexpectedClosingTag") => "refused_UnexpectedClosingTag",
                _ => "refused_other",
            });
            let ctx = |m: String| format!("{}\n  refused call #{}: {} -> {:?}\n  with it:    {}\n  without it: {}", m, f, refused.short(), a.verdicts[f].as_ref().map(|e| e.kind()), render_ops(&cur), render_ops(&without));
            // before the refused call both runs are the same run
            if f > 0 && (a.dest_len[f] != a.dest_len[f - 1]) {
                return Err(ctx(format!("the refused call handed {} byte(s) to the destination", a.dest_len[f] - a.dest_len[f - 1])));
            }
            if f == 0 && a.dest_len[0] != 0 {
                return Err(ctx(format!("the refused call handed {} byte(s) to the destination", a.dest_len[0])));
            }
            for k in f..without.len() {
                if a.verdicts[k + 1] != b.verdicts[k] {
                    return Err(ctx(format!("call {} ({}) returns {:?} after the refused call but {:?} when that call is never made", k + 1, without[k].short(), a.verdicts[k + 1].as_ref().map(|e| e.kind()), b.verdicts[k].as_ref().map(|e| e.kind()))));
                }
                if a.dest_len[k + 1] != b.dest_len[k] {
                    return Err(ctx(format!("after call {} ({}) the destination holds {} bytes, but {} when the refused call is never made", k + 1, without[k].short(), a.dest_len[k + 1], b.dest_len[k])));
                }
            }
            if a.flush != b.flush {
                return Err(ctx(format!("the final flush()/into_inner() returns {:?} after the refused call but {:?} without it", a.flush.as_ref().map(|e| e.kind()), b.flush.as_ref().map(|e| e.kind()))));
            }
            if a.bytes != b.bytes {
                let k = a.bytes.iter().zip(b.bytes.iter()).take_while(|(x, y)| x == y).count();
                return Err(ctx(format!("the final output differs at byte {} ({} vs {} bytes)\n  with:    {}\n  without: {}", k, a.bytes.len(), b.bytes.len(), hex(&a.bytes[..a.bytes.len().min(200)]), hex(&b.bytes[..b.bytes.len().min(200)]))));
            }
            cur = without;
            a = b;
        }
        c.nontrivial = removed > 0;
        c.label_if(removed > 1, "several_refused_calls");
        c.label_if(removed == 0, "no_call_refused");
        Ok(())
    })
}

pub const STAGES: &[Stage] = &[
    Stage { name: "rejected_calls", f: stage },
    Stage { name: "rejected_master_end", f: stage_failed_end },
    Stage { name: "any_calls_without_the_refused_one", f: stage_any_calls },
];

pub fn run(rc: &mut RunCtx) {
    rc.run_pt(STAGES[0], rc.pick(480_000, 2_000_000), (96, 640));
    rc.run_pt(STAGES[1], rc.pick(160_000, 800_000), (96, 500));
    rc.run_pt(STAGES[2], rc.pick(320_000, 1_500_000), (96, 640));
    for l in ["refused_UnexpectedTag", "refused_TagSizeError", "refused_TagIdError", "refused_UnexpectedClosingTag", "several_refused_calls"] {
        rc.require_label("any_calls_without_the_refused_one", l, 5_000);
    }
    rc.require_label("rejected_master_end", "width1_content_127plus", 300_000);
    for l in ["tag_not_allowed_here", "size_not_representable_in_width", "unknown_size_on_non_master", "malformed_raw_id", "unknown_size_on_non_master_deprecated_call", "end_of_not_innermost_master", "full_with_invalid_child", "full_with_stray_end_or_unclosed_start", "full_master_content_not_representable_in_width", "failing_call_inside_open_master"] {
        rc.require_label("rejected_calls", l, 20_000);
    }
    if !rc.quick() {
        rc.run_fuzz(Some(STAGES[0]), 320);
    }
}
