//! One module per property. Each exposes RULE, ASSUMPTIONS, STAGES and run().

use crate::runner::{RunCtx, Stage};

pub mod common;
pub mod c20;
pub mod c17;
pub mod c18;
pub mod c19;
pub mod c01;
pub mod c02;
pub mod c03;
pub mod c04;
pub mod c05;
pub mod c06;
pub mod c07;
pub mod c08;
pub mod c09;
pub mod c10;
pub mod c11;
pub mod c12;
pub mod c13;
pub mod c14;
pub mod c15;
pub mod c16;

pub struct PropDef {
    pub id: &'static str,
    pub rule: &'static str,
    pub assumptions: &'static [&'static str],
    pub stages: &'static [Stage],
    pub run: fn(&mut RunCtx),
}

macro_rules! prop {
    ($id:literal, $m:ident) => {
        PropDef { id: $id, rule: $m::RULE, assumptions: $m::ASSUMPTIONS, stages: $m::STAGES, run: $m::run }
    };
}

pub fn registry() -> Vec<PropDef> {
    vec![prop!("C01", c01), prop!("C02", c02), prop!("C03", c03), prop!("C04", c04), prop!("C05", c05), prop!("C06", c06), prop!("C07", c07), prop!("C08", c08), prop!("C09", c09), prop!("C10", c10), prop!("C11", c11), prop!("C12", c12), prop!("C13", c13), prop!("C14", c14), prop!("C15", c15), prop!("C16", c16), prop!("C17", c17), prop!("C18", c18), prop!("C19", c19), prop!("C20", c20)]
}
