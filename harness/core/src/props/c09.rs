//! C09 — writer output does not depend on how the same document is presented.

use crate::drive::*;
use crate::gen::*;
use crate::model::*;
use crate::props::common::*;
use crate::refmodel::*;
use crate::runner::*;
use crate::tape::Tape;
use crate::with_spec;

pub const RULE: &str = "(specification, conformant forest, subtrees collapsed into Full items incl. Full inside Full and masters given as Start/End children of a Full item, per-element option default | size width 1-8 | unknown size, short-write schedule of the destination incl. one Interrupted) from a choice tape. \
Paired runs, byte equality: (1) Full presentation == Start, children, End with the same option on the collapsed master; (2) deprecated write_unknown_size == write_advanced(unknown); \
(3) for every element written with set_size_byte_count(w) the reference header parser finds size_len == w at its position, and the linear walk (id bytes, payload bytes) of the output equals that of the all-default output; \
(4) bytes received under the short-write schedule == bytes received by a plain Vec (half of the destinations implement a gathering write_vectored, cut short by the same schedule). Non-trivial: a Full containing a master, a width different from the minimal one, or a schedule with >= 2 partial writes; distinct by (spec, forest, schedule).";

pub const ASSUMPTIONS: &[&str] = &[
    "widths are drawn from those that can hold the size; the unknown-size option is only combined with Start (Full + unknown is not a presentation the statement names)",
    "ErrorKind::Interrupted is absorbed by write_all (std contract)",
];

/// linear walk of writer output: (id, size_len, payload or None for masters)
pub fn walk(spec: &SpecTable, b: &[u8]) -> Result<Vec<(u64, usize, Option<Vec<u8>>)>, String> {
    let mut out = Vec::new();
    let mut o = 0usize;
    while o < b.len() {
        match ref_header(b, o) {
            RefHeader::Ok { id, id_len, size, size_len } => {
                let he = o + id_len + size_len;
                if spec.ty(id) == Some(Ty::Master) {
                    out.push((id, size_len, None));
                    o = he;
                } else {
                    let RefSize::Known(n) = size else { return Err(format!("non-master {:#x} at {} written with unknown size", id, o)) };
                    let n = n as usize;
                    if he + n > b.len() {
                        return Err(format!("element {:#x} at {} declares {} bytes, output ends after {}", id, o, n, b.len() - he));
                    }
                    out.push((id, size_len, Some(b[he..he + n].to_vec())));
                    o = he + n;
                }
            }
            other => return Err(format!("output not parsable at offset {}: {:?}", o, other)),
        }
    }
    Ok(out)
}

fn clear(forest: &mut [Node], f: &dyn Fn(&mut Enc)) {
    fn rec(n: &mut Node, f: &dyn Fn(&mut Enc)) {
        f(&mut n.enc);
        if let Some(ch) = n.children_mut() {
            for c in ch.iter_mut() {
                rec(c, f);
            }
        }
    }
    for n in forest.iter_mut() {
        rec(n, f);
    }
}

fn preorder(forest: &[Node]) -> Vec<&Node> {
    fn rec<'a>(n: &'a Node, out: &mut Vec<&'a Node>) {
        out.push(n);
        for c in n.children() {
            rec(c, out);
        }
    }
    let mut out = Vec::new();
    for n in forest {
        rec(n, &mut out);
    }
    out
}

fn full_in_full(t: &mut Tape, forest: &mut [Node]) {
    // assign_enc never nests Full flags (children of a Full are handed over inside it anyway); nothing to do,
    // but make collapsing more frequent for this property
    fn rec(t: &mut Tape, n: &mut Node, inside: bool) {
        let mut now = inside;
        if n.is_master() && !inside && !n.enc.unknown && t.chance(1, 3) {
            n.enc.full = true;
            now = true;
        }
        if now && !n.enc.full {
            n.enc = Enc::default();
        }
        if n.enc.full {
            // descendants are written with default options by the writer
            if let Some(ch) = n.children_mut() {
                for c in ch.iter_mut() {
                    clear_all(t, c);
                }
            }
            return;
        }
        if let Some(ch) = n.children_mut() {
            for c in ch.iter_mut() {
                rec(t, c, now);
            }
        }
    }
    fn clear_all(t: &mut Tape, n: &mut Node) {
        n.enc = Enc::default();
        // inside a Full item a master may be given as Start / End children of that item instead of as a nested Full
        if n.is_master() && t.chance(1, 3) {
            n.enc.flat_in_full = true;
        }
        if let Some(ch) = n.children_mut() {
            for c in ch.iter_mut() {
                clear_all(t, c);
            }
        }
    }
    for n in forest.iter_mut() {
        rec(t, n, false);
    }
}

fn stage(i: &Input, c: &mut Case) -> Result<(), String> {
    let mut t = Tape::new(i.tape());
    // one case in 40 may carry a payload beyond the 64 KiB mark (65 535 .. 2 MiB): large elements are where writers take short cuts
    let huge = t.chance(1, 40);
    let to = TreeOpts { max_nodes: if huge { 12 } else { 40 }, pay: PayOpts { big_left: if huge { 2 } else { 1 }, huge, max_small: 30 }, deep: t.chance(1, 2), ..TreeOpts::default() };
    let mut d = gen_doc(&mut t, SpecOpts::default(), to, EncOpts { widths: true, unknown: true, full: true, noncanonical: false });
    if huge {
        let n = *t.pick(&[65_535usize, 65_536, 65_537, 70_000, 131_072, 1 << 20, (1 << 20) + 5]);
        enlarge_one_leaf(&mut t, &mut d.forest, n);
    }
    full_in_full(&mut t, &mut d.forest);
    fix_widths(&mut d.forest);
    note_cleared(c, &d);
    doc_labels(c, &d);
    // destination schedule
    let nsched = t.below(12);
    let mut sched: Vec<usize> = (0..nsched).map(|_| match t.below(6) { 0 => 1, 1 => 2, 2 => 3, 3 => 0, _ => 1 + t.below(40) }).collect();
    // at most one Interrupted in a row is what write_all is specified to absorb; keep them isolated
    for k in 1..sched.len() {
        if sched[k] == 0 && sched[k - 1] == 0 {
            sched[k] = 1;
        }
    }
    let non_minimal = any_node(&d.forest, &|n| n.enc.size_w != 0 && !n.enc.unknown && n.enc.size_w as usize != size_min_width(content_len(n) as u64));
    let full_with_master = any_node(&d.forest, &|n| n.enc.full && n.children().iter().any(|c| c.is_master()));
    c.label_if(huge && any_node(&d.forest, &|n| content_len(n) >= 65_535 && !n.is_master()), "payload_64KiB_or_more");
    c.label_if(non_minimal, "width_not_minimal");
    c.label_if(full_with_master, "full_contains_master");
    c.key(&(d.spec.table().elems.clone(), &d.forest, &sched));
    c.sample_with(|| format!("{} | dest schedule {:?}", describe_doc(&d), sched));

    // (drawn last) a destination whose write_vectored really gathers
    let gather = t.chance(1, 2);
    let ops = forest_ops(&d.forest);
    with_spec!(d.spec, T => {
        let out = write_ops::<T>(&ops).map_err(|(k, e)| format!("writer rejected call #{} {:?} of a conformant sequence: {:?}\n  ops: {}", k, ops.get(k).map(|o| o.short()), e, render_ops(&ops)))?;
        // (1) Full vs Start/children/End
        let mut flat_forest = d.forest.clone();
        clear(&mut flat_forest, &|e| e.full = false);
        let ops_flat = forest_ops(&flat_forest);
        let out_flat = write_ops::<T>(&ops_flat).map_err(|(k, e)| format!("writer rejected call #{} of the Start/End presentation: {:?}\n  ops: {}", k, e, render_ops(&ops_flat)))?;
        c.checks += 1;
        if out != out_flat {
            let k = out.iter().zip(out_flat.iter()).take_while(|(a, b)| a == b).count();
            return Err(format!("Full presentation and Start/children/End presentation differ at byte {} ({} vs {} bytes)\n  with Full: {}\n  flat:      {}\n  ops: {}", k, out.len(), out_flat.len(), hex(&out[..out.len().min(200)]), hex(&out_flat[..out_flat.len().min(200)]), render_ops(&ops)));
        }
        // (2) deprecated unknown-size call
        if ops.iter().any(|o| matches!(o, WOp::Write(_, WOpt::Unknown))) {
            let ops_dep: Vec<WOp> = ops.iter().map(|o| match o { WOp::Write(f, WOpt::Unknown) => WOp::UnknownDeprecated(f.clone()), other => other.clone() }).collect();
            let out_dep = write_ops::<T>(&ops_dep).map_err(|(k, e)| format!("deprecated write_unknown_size: call #{} failed: {:?}", k, e))?;
            c.checks += 1;
            c.label("deprecated_unknown_call");
            if out_dep != out {
                return Err(format!("write_unknown_size and write_advanced(unknown) produce different bytes\n  deprecated: {}\n  option:     {}", hex(&out_dep[..out_dep.len().min(200)]), hex(&out[..out.len().min(200)])));
            }
        }
        // (3) widths honoured exactly; options touch size fields only
        let w = walk(d.spec.table(), &out).map_err(|e| format!("{}\n  ops: {}", e, render_ops(&ops)))?;
        let nodes = preorder(&d.forest);
        if w.len() != nodes.len() {
            return Err(format!("output has {} elements, {} were written\n  ops: {}", w.len(), nodes.len(), render_ops(&ops)));
        }
        for (k, n) in nodes.iter().enumerate() {
            if w[k].0 != n.id {
                return Err(format!("element {} of the output has id {:#x}, element {} written was {:#x}", k, w[k].0, k, n.id));
            }
            if n.enc.size_w != 0 && !n.enc.unknown && w[k].1 != n.enc.size_w as usize {
                return Err(format!("element {:#x} (#{}) written with set_size_byte_count({}) has a {}-byte size field\n  ops: {}", n.id, k, n.enc.size_w, w[k].1, render_ops(&ops)));
            }
            c.checks += 1;
        }
        let mut plain = d.forest.clone();
        clear(&mut plain, &|e| *e = Enc::default());
        let out_plain = write_ops::<T>(&forest_ops(&plain)).map_err(|(k, e)| format!("all-default presentation: call #{} failed: {:?}", k, e))?;
        let wp = walk(d.spec.table(), &out_plain)?;
        let a: Vec<(u64, &Option<Vec<u8>>)> = w.iter().map(|x| (x.0, &x.2)).collect();
        let b: Vec<(u64, &Option<Vec<u8>>)> = wp.iter().map(|x| (x.0, &x.2)).collect();
        c.checks += 1;
        if a != b {
            let k = a.iter().zip(b.iter()).take_while(|(x, y)| x == y).count();
            return Err(format!("options changed more than size fields: element {} is {:x?} with options and {:x?} with defaults\n  ops: {}", k, a.get(k), b.get(k), render_ops(&ops)));
        }
        // (4) short writes
        let mut wr = Wr::<T>::new(RecDest { gather, ..RecDest::with_sched(sched.clone()) });
        for (k, op) in ops.iter().enumerate() {
            wr.apply(op).map_err(|e| format!("with short-write schedule {:?}: call #{} failed: {:?}", sched, k, e))?;
        }
        let partial = wr.w.get_ref().partial_writes;
        c.label_if(gather, "gathering_destination");
        c.label_if(gather && wr.w.get_ref().vectored_calls > 0, "write_vectored_called_on_gathering_destination");
        let got = wr.finish().map_err(|e| format!("with short-write schedule {:?}: flush failed: {:?}", sched, e))?;
        c.checks += 1;
        c.label_if(partial >= 2, "two_or_more_partial_writes");
        if got != out {
            let k = got.iter().zip(out.iter()).take_while(|(a, b)| a == b).count();
            return Err(format!("destination (write_vectored gathers: {}) with short-write schedule {:?} received different bytes (first difference at {}, {} vs {} bytes)\n  ops: {}", gather, sched, k, got.len(), out.len(), render_ops(&ops)));
        }
        c.nontrivial = full_with_master || non_minimal || partial >= 2;
        Ok(())
    })
}

pub const STAGES: &[Stage] = &[Stage { name: "presentations", f: stage }];

pub fn run(rc: &mut RunCtx) {
    rc.run_pt(STAGES[0], rc.pick(320_000, 1_500_000), (96, 640));
    for l in ["full_contains_master", "width_not_minimal", "two_or_more_partial_writes", "deprecated_unknown_call", "start_end_pair_inside_full"] {
        rc.require_label("presentations", l, 20_000);
    }
    if !rc.quick() {
        rc.run_fuzz(Some(STAGES[0]), 320);
    }
}
