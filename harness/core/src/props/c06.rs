//! C06 — strict mode emits only well-nested, hierarchy-valid, size-contained sequences.

use crate::drive::*;
use crate::gen::*;
use crate::model::*;
use crate::mutate::*;
use crate::oracle::*;
use crate::refmodel::*;
use crate::runner::*;
use crate::tape::Tape;
use crate::with_spec;

pub const RULE: &str = "(stage structure_deep_nesting: the same oracle on documents nested 28-300 masters deep over a recursive template or generated specification, innermost masters of unknown size, a third mutated.) inputs biased to where counter-examples live: generated documents with a random known/unknown choice per master, encoded by the reference encoder, then (a) unchanged, \
(b) 1-3 structure-aware mutations (size field rewritten, id replaced by a sibling-/ancestor-/root-level id, element moved/deleted/duplicated), (c) a suffix starting at the tag_start of a non-root element \
(mid-document start, optionally mutated), (d) adversarial headers / random bytes, plus a dedicated template: unknown-size master → known-size child not yet exhausted → element of an outer level. \
Strict configuration only. Oracle: StructureChecker replays the emitted (item, offset) prefix with its own stack: ids in spec, declared path matches the open chain (ref_match) once the first non-global element fixed the position, \
every element inside every enclosing known-size range, End of a known-size master neither early nor late, well-nested Ends, and all masters closed (End, never Start) when the iterator ends. \
Non-trivial: >= 2 nesting levels reached and the input is mutated, mid-document or has an unknown-size master; distinct by input bytes.";

pub const ASSUMPTIONS: &[&str] = &[
    "where an unknown-size master must end is C07's business; here only that whatever is emitted is well-nested and valid under the chain open at that moment",
    "the first non-global element is trusted (its declared path becomes the implied chain), as the documentation of mid-document reading says",
];

/// unknown-size master → known-size child with room left → element that belongs to an outer level
fn template(t: &mut Tape, spec: &SpecTable) -> Option<Vec<u8>> {
    // find a chain root R (master) > A (master) > B (master) with a leaf under B and an element of R's or root level
    let masters: Vec<&Elem> = spec.elems.iter().filter(|e| e.ty == Ty::Master && !e.is_global()).collect();
    let mut cands = Vec::new();
    for b in &masters {
        if b.path.len() >= 2 {
            cands.push(*b);
        }
    }
    if cands.is_empty() {
        return None;
    }
    let b = cands[t.below(cands.len())];
    let chain: Vec<u64> = b.path.iter().map(|p| if let PathPart::Id(x) = p { *x } else { 0 }).collect();
    // outer-level element: a root element or a child of chain[0]
    let outer: Vec<&Elem> = spec.elems.iter().filter(|e| !e.is_global() && (e.path.is_empty() || e.path.len() == 1 && e.path[0] == PathPart::Id(chain[0]))).collect();
    let o = outer[t.below(outer.len())];
    // build: chain masters (first unknown-size or known), B known-size with declared size larger than what precedes the outer element
    let mut out = Vec::new();
    for (k, id) in chain.iter().enumerate() {
        out.extend_from_slice(&id_bytes(*id));
        if k == chain.len() - 1 || t.chance(2, 3) {
            let w = 1 + t.below(8);
            out.extend_from_slice(&ref_vint((1u64 << (7 * w)) - 1, w).unwrap());
        } else {
            out.extend_from_slice(&ref_vint(40 + t.below(60) as u64, 2).unwrap());
        }
    }
    out.extend_from_slice(&id_bytes(b.id));
    out.extend_from_slice(&ref_vint(10 + t.below(20) as u64, 1).unwrap());
    // optional leaf child of B
    let leaves: Vec<&Elem> = spec.elems.iter().filter(|e| e.ty != Ty::Master && ref_match(&e.path, &[chain.clone(), vec![b.id]].concat())).collect();
    if !leaves.is_empty() && t.chance(2, 3) {
        let l = leaves[t.below(leaves.len())];
        let mut po = PayOpts { big_left: 0, huge: false, max_small: 3 };
        let p = gen_payload(t, l.ty, &mut po);
        out.extend_from_slice(&ref_encode(&[Node::leaf(l.id, p)]).0);
    }
    // the outer-level element, well inside B's declared range
    out.extend_from_slice(&id_bytes(o.id));
    if o.ty == Ty::Master {
        out.extend_from_slice(&ref_vint(0, 1).unwrap());
    } else {
        let mut po = PayOpts { big_left: 0, huge: false, max_small: 3 };
        let p = gen_payload(t, o.ty, &mut po);
        let e = ref_encode(&[Node::leaf(o.id, p)]).0;
        out.extend_from_slice(&e[id_bytes(o.id).len()..]);
    }
    let tail = t.below(6);
    out.extend_from_slice(&t.bytes(tail));
    Some(out)
}


/// reading starts at a (global) master, further global masters follow, and the first non-global element arrives while they
/// are still open by size: whatever the iterator decides, what it emits must stay well-nested and size-contained
fn template_global_start(t: &mut Tape, spec: &SpecTable) -> Option<Vec<u8>> {
    let gm: Vec<&Elem> = spec.elems.iter().filter(|e| e.ty == Ty::Master && e.path.len() == 1 && e.is_global()).collect();
    let non_global: Vec<&Elem> = spec.elems.iter().filter(|e| !e.is_global()).collect();
    if gm.is_empty() || non_global.is_empty() {
        return None;
    }
    let depth = 1 + t.below(3);
    let x = non_global[t.below(non_global.len())];
    let mut inner = if x.ty == Ty::Master {
        let mut v = id_bytes(x.id);
        v.push(0x80);
        v
    } else {
        let mut po = PayOpts { big_left: 0, huge: false, max_small: 3 };
        ref_encode(&[Node::leaf(x.id, gen_payload(t, x.ty, &mut po))]).0
    };
    // a little more after it, inside the same ranges
    let gl: Vec<&Elem> = spec.elems.iter().filter(|e| e.ty != Ty::Master && e.path.len() == 1 && e.is_global()).collect();
    if !gl.is_empty() && t.chance(1, 2) {
        let l = gl[t.below(gl.len())];
        let mut po = PayOpts { big_left: 0, huge: false, max_small: 3 };
        inner.extend_from_slice(&ref_encode(&[Node::leaf(l.id, gen_payload(t, l.ty, &mut po))]).0);
    }
    for _ in 0..depth {
        let g = gm[t.below(gm.len())];
        let mut h = id_bytes(g.id);
        if t.chance(1, 2) {
            let w = 1 + t.below(4);
            h.extend_from_slice(&ref_vint((1u64 << (7 * w)) - 1, w).unwrap());
        } else {
            let extra = t.below(3) as u64;
            h.extend_from_slice(&ref_vint(inner.len() as u64 + extra, size_min_width(inner.len() as u64 + extra)).unwrap());
        }
        h.extend_from_slice(&inner);
        inner = h;
    }
    let tail = t.below(4);
    inner.extend_from_slice(&t.bytes(tail));
    Some(inner)
}

fn stage(i: &Input, c: &mut Case) -> Result<(), String> {
    let mut t = Tape::new(i.tape());
    let use_template = t.chance(1, 8);
    let mut m = gen_mixed(&mut t, MixOpts { weights: [2, 2, 7, 1, 2, 4], ..MixOpts::default() });
    if use_template {
        if let Some(b) = template(&mut t, m.spec.table()) {
            m.bytes = b;
            m.origin = Origin::Adversarial;
            m.mutations = vec!["template_root_inside_known_child_of_unknown"];
            c.label("template_outer_element_inside_known_child_of_unknown");
        }
    }
    if !use_template && t.chance(1, 10) {
        if let Some(b) = template_global_start(&mut t, m.spec.table()) {
            m.bytes = b;
            m.origin = Origin::MidDocument;
            m.mutations = vec!["template_start_inside_global_masters"];
            c.label("template_first_non_global_element_inside_open_global_masters");
        }
    }
    structure(t, m, c)
}

/// the same invariants on documents nested 28 .. 300 masters deep (`gen_deep`)
fn stage_deep(i: &Input, c: &mut Case) -> Result<(), String> {
    let mut t = Tape::new(i.tape());
    let m = gen_deep(&mut t, false);
    c.label("nested_28_to_300_deep");
    structure(t, m, c)
}

fn structure(mut t: Tape, m: MixedInput, c: &mut Case) -> Result<(), String> {
    let capacity = if t.chance(1, 3) { Some(*t.pick(&[16usize, 24, 33])) } else { None };
    let (max_size, _) = safe_max_size(&m.bytes, MaxSize::Untouched);
    let cfg = ReadCfg { capacity, max_size, ..ReadCfg::default() };
    c.label(m.origin.label());
    c.key(&m.bytes);
    c.sample_with(|| format!("{} | cfg {}", describe_mixed(&m), cfg.render()));
    let obs = with_spec!(m.spec, T => read_all::<T>(&m.bytes, &cfg));
    match obs.last() {
        Some(Obs::Panic(p)) => return Err(format!("iterator panicked: {}\n  input: {}", p, describe_mixed(&m))),
        Some(Obs::Runaway(n)) => return Err(format!("iterator produced more than {} items\n  input: {}", n, describe_mixed(&m))),
        _ => {}
    }
    let ended = !matches!(obs.last(), Some(Obs::Err(_)));
    let st = check_structure(m.spec.table(), &m.bytes, &obs, ended)
        .map_err(|e| format!("{}\n  observed: {}\n  input: {}\n  cfg: {}", e, render_obs(&obs), describe_mixed(&m), cfg.render()))?;
    c.checks += st.items as u64;
    let special = m.origin != Origin::Valid && m.origin != Origin::NonCanonical || st.unknown_masters > 0;
    c.nontrivial = st.max_depth >= 2 && special;
    c.label_if(st.implied > 0, "implied_ancestors");
    c.label_if(st.unknown_masters > 0, "unknown_size_master_read");
    c.label_if(st.unknown_masters > 0 && st.known_masters > 0, "mixed_known_unknown");
    c.label_if(ended, "ended_cleanly");
    c.label_if(!ended, "ended_in_error");
    c.label_if(st.max_depth >= 3, "depth3plus");
    Ok(())
}

pub const STAGES: &[Stage] = &[Stage { name: "structure", f: stage }, Stage { name: "structure_deep_nesting", f: stage_deep }];

pub fn run(rc: &mut RunCtx) {
    rc.run_pt(STAGES[0], rc.pick(960_000, 5_000_000), (96, 500));
    rc.run_pt(STAGES[1], rc.pick(12_000, 100_000), (64, 200));
    for l in ["implied_ancestors", "mixed_known_unknown", "input_mutated", "input_mid_document", "ended_cleanly", "ended_in_error", "template_outer_element_inside_known_child_of_unknown", "template_first_non_global_element_inside_open_global_masters"] {
        rc.require_label("structure", l, 10_000);
    }
    if !rc.quick() {
        rc.run_fuzz(Some(STAGES[0]), 300);
    }
}
