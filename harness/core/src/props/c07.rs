//! C07 — unknown-size masters end where EBML says; same tags as the known-size encoding.

use crate::drive::*;
use crate::gen::*;
use crate::model::*;
use crate::props::common::*;
use crate::refmodel::*;
use crate::runner::*;
use crate::tape::Tape;
use crate::with_spec;

pub const RULE: &str = "(specification, conformant forest biased to depth >= 3 and to masters that are the last child of their parent) × EVERY subset U of its master instances encoded with unknown size \
when there are <= 8 masters (64 tape-chosen subsets otherwise); each (forest, U) is encoded twice — by the real TagWriter (8-byte all-ones marker) and by the reference encoder with all-ones sizes of width 1-8 — \
and read with the strict iterator and with one generated non-empty set of tolerated error classes (the closing rule is not a matter of tolerance). Oracle: the item sequence (with the position of every End) equals flatten(forest), i.e. the all-known-size reading, with no error. Each (forest, U, encoder) is one evaluation. \
Non-trivial: some master in U is the last child of a master that is also in U (its End is caused by a higher-level element, an enclosing known-size extent or EOF); distinct by (document bytes).";

pub const ASSUMPTIONS: &[&str] = &[
    "excluded by construction and counted: subsets that put unknown size on a master whose declared path has a placeholder where 'sibling' would have to be decided for it (something follows it at its own level, or an element of the identical path / of an ancestor's type lies inside it), or on a master directly before a global element (the inherently ambiguous case the statement excludes)",
];

fn set_subset(forest: &mut [Node], mask: u64, widths: &[u8]) {
    fn rec(n: &mut Node, k: &mut usize, mask: u64, widths: &[u8]) {
        if !n.is_master() {
            return;
        }
        let on = *k < 64 && (mask >> *k) & 1 == 1;
        n.enc.unknown = on;
        n.enc.size_w = if on { widths[*k % widths.len()] } else { 0 };
        *k += 1;
        if let Some(ch) = n.children_mut() {
            for c in ch.iter_mut() {
                rec(c, k, mask, widths);
            }
        }
    }
    let mut k = 0;
    for n in forest.iter_mut() {
        rec(n, &mut k, mask, widths);
    }
}

fn nested_last_child(forest: &[Node]) -> bool {
    any_node(forest, &|n| {
        n.is_master() && n.enc.unknown && n.children().last().map(|c| c.is_master() && c.enc.unknown).unwrap_or(false)
    })
}

/// a fixed specification in which a master may contain itself through intermediate masters (a folder holds entries, an entry holds
/// attributes — and folders again): the shape in which "a new instance of one of its ancestors" is a grandparent or higher
fn recursive_spec() -> SpecChoice {
    use PathPart::{Global as G, Id};
    let folder = vec![Id(0x81), G((Some(0), None))];
    let mut entry = folder.clone();
    entry.push(Id(0x82));
    let mut attrs = entry.clone();
    attrs.push(Id(0x83));
    let mut mode = attrs.clone();
    mode.push(Id(0x84));
    let s = std::rc::Rc::new(SpecTable::new(vec![
        Elem { id: 0x81, ty: Ty::Master, path: vec![], name: "Root".into() },
        Elem { id: 0x82, ty: Ty::Master, path: folder, name: "Folder".into() },
        Elem { id: 0x83, ty: Ty::Master, path: entry.clone(), name: "Entry".into() },
        Elem { id: 0x84, ty: Ty::Master, path: attrs, name: "Attrs".into() },
        Elem { id: 0x85, ty: Ty::U, path: mode, name: "Mode".into() },
        Elem { id: 0x86, ty: Ty::S, path: entry, name: "Name".into() },
        Elem { id: 0x87, ty: Ty::U, path: vec![Id(0x81)], name: "Count".into() },
        Elem { id: 0xEC, ty: Ty::B, path: vec![G((None, None))], name: "Void".into() },
        Elem { id: 0xBF, ty: Ty::B, path: vec![G((Some(1), None))], name: "Crc32".into() },
    ]));
    crate::dynspec::set_current(s.clone());
    SpecChoice::Dyn(s)
}

fn stage(i: &Input, c: &mut Case) -> Result<(), String> {
    let mut t = Tape::new(i.tape());
    // one case in five uses the recursive specification; the choice hangs on the LAST tape word, so that every tape recorded before
    // this choice existed keeps its meaning (the two pinned ones end in words that select the generated specification)
    let recursive = i.tape().last().map(|w| w % 5 == 1).unwrap_or(false);
    let spec = if recursive { recursive_spec() } else { gen_spec_choice(&mut t, SpecOpts::default()) };
    c.label_if(recursive, "spec_recursive_template");
    let to = TreeOpts { max_nodes: 28, deep: true, max_children: 4, pay: PayOpts { big_left: 0, huge: false, max_small: 12 }, ..TreeOpts::default() };
    let mut forest = gen_forest(&mut t, spec.table(), to);
    let m = forest.iter().map(|n| n.count_masters()).sum::<usize>();
    let flat = flatten(&forest);
    let masks: Vec<u64> = if m <= 8 {
        (0..(1u64 << m)).collect()
    } else {
        let mut v: Vec<u64> = vec![(1u64 << m.min(63)) - 1];
        for _ in 0..63 {
            v.push(t.u64() & ((1u64 << m.min(63)) - 1));
        }
        v
    };
    let wsel: Vec<u8> = (0..5).map(|_| 1 + t.below(8) as u8).collect();
    // the closing rule does not depend on what the reader is told to tolerate: one non-strict configuration per case reads every
    // encoding as well (a valid document has nothing to tolerate, so the items must be the same)
    let tol_extra = 1 + t.below(7) as u8;
    let cfg_tol = ReadCfg { tolerate: tol_extra, ..ReadCfg::strict() };
    let mut units = 0u64;
    let mut nontrivial = 0u64;
    let mut sample: Option<String> = None;
    with_spec!(spec, T => {
        for &mask in &masks {
            // writer view: 8-byte marker
            set_subset(&mut forest, mask, &[8]);
            let cleared = sanitize_unknown(spec.table(), &mut forest, true);
            if cleared.0 + cleared.1 > 0 {
                for _ in 0..cleared.0 { c.exclude("unknown_size_on_master_with_placeholder_path"); }
                for _ in 0..cleared.1 { c.exclude("global_element_directly_after_unknown_size_master"); }
                continue;
            }
            let nt = nested_last_child(&forest);
            let ops = forest_ops(&forest);
            let bytes = write_ops::<T>(&ops).map_err(|(k, e)| format!("writer rejected call #{} of a conformant sequence: {:?}\n  ops: {}", k, e, render_ops(&ops)))?;
            let obs = read_all::<T>(&bytes, &ReadCfg::strict());
            expect_exact(&obs, &flat, "unknown-size subset written by TagWriter").map_err(|e| {
                format!("{}\n  doc: {}\n  observed: {}\n  bytes: {}", e, render_forest(&forest), render_obs(&obs), hex(&bytes[..bytes.len().min(160)]))
            })?;
            units += 1;
            nontrivial += nt as u64;
            let obs = read_all::<T>(&bytes, &cfg_tol);
            expect_exact(&obs, &flat, "unknown-size subset written by TagWriter, read with tolerated error classes").map_err(|e| {
                format!("{}\n  tolerated {:03b}\n  doc: {}\n  observed: {}\n  bytes: {}", e, tol_extra, render_forest(&forest), render_obs(&obs), hex(&bytes[..bytes.len().min(160)]))
            })?;
            // reference encoder: all-ones in widths 1..8
            set_subset(&mut forest, mask, &wsel);
            let (rb, _) = ref_encode(&forest);
            let obs = read_all::<T>(&rb, &ReadCfg::strict());
            expect_exact(&obs, &flat, "unknown-size subset encoded by the reference encoder").map_err(|e| {
                format!("{}\n  doc: {}\n  observed: {}\n  bytes: {}", e, render_forest(&forest), render_obs(&obs), hex(&rb[..rb.len().min(160)]))
            })?;
            units += 1;
            nontrivial += nt as u64;
            let obs = read_all::<T>(&rb, &cfg_tol);
            expect_exact(&obs, &flat, "unknown-size subset encoded by the reference encoder, read with tolerated error classes").map_err(|e| {
                format!("{}\n  tolerated {:03b}\n  doc: {}\n  observed: {}\n  bytes: {}", e, tol_extra, render_forest(&forest), render_obs(&obs), hex(&rb[..rb.len().min(160)]))
            })?;
            if nt && sample.is_none() && c.want_sample {
                sample = Some(format!("spec {} | {}", spec_brief(spec.table()), render_forest(&forest)));
            }
            c.checks += 4 * flat.len() as u64;
        }
    });
    c.units = units.max(1);
    c.nontrivial_units = nontrivial;
    c.label_n("subset_with_nested_unknown_last_child", nontrivial);
    c.label_n(if m <= 8 { "all_subsets" } else { "sampled_subsets" }, c.units);
    c.label_n(if spec.is_rich() { "spec_macro_derived" } else { "spec_generated" }, c.units);
    if forest_depth(&forest) >= 3 {
        c.label_n("depth3plus", c.units);
    }
    c.key(&(spec.table().elems.clone(), &flat));
    if let Some(s) = sample {
        c.sample_with(|| s);
    }
    Ok(())
}

pub const STAGES: &[Stage] = &[Stage { name: "subsets", f: stage }];

pub fn run(rc: &mut RunCtx) {
    rc.run_pt(STAGES[0], rc.pick(80_000, 500_000), (96, 400));
    rc.require_label("subsets", "all_subsets", 200_000);
    rc.require_label("subsets", "depth3plus", 300_000);
    rc.require_label("subsets", "spec_recursive_template", 5_000);
    if !rc.quick() {
        rc.run_fuzz(Some(STAGES[0]), 250);
    }
}
