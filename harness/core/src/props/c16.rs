//! C16 — fixed-width payload decoders are total and invert the writer's encodings.

use std::rc::Rc;

use ebml_iterable::tools;

use crate::drive::*;
use crate::dynspec::{set_current, DynTag};
use crate::model::*;
use crate::refmodel::*;
use crate::runner::*;
use crate::tape::Tape;

pub const RULE: &str = "arr_to_u64 / arr_to_i64 / arr_to_f64 on byte slices of length 0..16 compared with from_be_bytes-based reference decoders \
(all slices of length <= 3, a bit lattice for lengths 3..16, proptest-random slices with uniform length), and u64/i64/f64 values \
(boundary sets + random) written as one-element documents through TagWriter (default options and every explicit size-field width 1-8: the size field has exactly that width, the payload is the same), the payload located with the reference header parser: minimal 1/2/4/8 width, \
8-byte floats, and library decoder == reference decoder == original value (floats by bits). Non-trivial: slice length 0, 9 or more, sign/width boundary, or any multi-byte slice; distinct by slice / value.";

pub const ASSUMPTIONS: &[&str] = &["f32 payloads are widened with Rust's `as f64` (what the documentation of arr_to_f64 states); compared bit-for-bit"];

pub fn check_slice(b: &[u8]) -> Result<u64, String> {
    let u = guarded(|| tools::arr_to_u64(b)).map_err(|p| format!("arr_to_u64({:02x?}) panicked: {}", b, p))?;
    match (ref_uint(b), &u) {
        (Some(w), Ok(g)) if w == *g => {}
        (None, Err(_)) => {}
        (w, g) => return Err(format!("arr_to_u64({:02x?}) = {:?}, expected {:?}", b, g, w)),
    }
    let i = guarded(|| tools::arr_to_i64(b)).map_err(|p| format!("arr_to_i64({:02x?}) panicked: {}", b, p))?;
    match (ref_sint(b), &i) {
        (Some(w), Ok(g)) if w == *g => {}
        (None, Err(_)) => {}
        (w, g) => return Err(format!("arr_to_i64({:02x?}) = {:?}, expected {:?}", b, g, w)),
    }
    let f = guarded(|| tools::arr_to_f64(b)).map_err(|p| format!("arr_to_f64({:02x?}) panicked: {}", b, p))?;
    match (ref_float(b), &f) {
        (Some(w), Ok(g)) if w == g.to_bits() => {}
        (None, Err(_)) => {}
        (w, g) => return Err(format!("arr_to_f64({:02x?}) = {:?} (bits {:x?}), expected bits {:x?}", b, g, g.as_ref().ok().map(|x| x.to_bits()), w)),
    }
    Ok(3)
}

const U_ID: u64 = 0x81;
const I_ID: u64 = 0x82;
const F_ID: u64 = 0x83;

fn num_spec() -> Rc<SpecTable> {
    thread_local! {
        static S: Rc<SpecTable> = Rc::new(SpecTable::new(vec![
            Elem { id: U_ID, ty: Ty::U, path: vec![], name: "U".into() },
            Elem { id: I_ID, ty: Ty::I, path: vec![], name: "I".into() },
            Elem { id: F_ID, ty: Ty::F, path: vec![], name: "F".into() },
        ]));
    }
    S.with(|s| s.clone())
}

pub fn check_written(p: &Payload) -> Result<u64, String> {
    let mut n = check_written_opt(p, WOpt::Default)?;
    // the payload is the same whatever width is requested for the size field in front of it
    for w in 1..=8u8 {
        n += check_written_opt(p, WOpt::Width(w))?;
    }
    Ok(n)
}

fn check_written_opt(p: &Payload, opt: WOpt) -> Result<u64, String> {
    set_current(num_spec());
    let id = match p {
        Payload::U(_) => U_ID,
        Payload::I(_) => I_ID,
        Payload::F(_) => F_ID,
        _ => unreachable!(),
    };
    let ops = vec![WOp::Write(Flat::Leaf(id, p.clone()), opt.clone())];
    let bytes = write_ops::<DynTag>(&ops).map_err(|(_, e)| format!("writing {:?} with {:?} failed: {:?}", p, opt, e))?;
    let RefHeader::Ok { id: hid, id_len, size: RefSize::Known(n), size_len } = ref_header(&bytes, 0) else {
        return Err(format!("writer output for {:?} ({:?}) has no parsable header: {:02x?}", p, opt, bytes));
    };
    if hid != id {
        return Err(format!("writer output for {:?} carries id {:#x}", p, hid));
    }
    if let WOpt::Width(w) = opt {
        if size_len != w as usize {
            return Err(format!("writer output for {:?} with set_size_byte_count({}) has a {}-byte size field: {:02x?}", p, w, size_len, bytes));
        }
    }
    let start = id_len + size_len;
    if bytes.len() != start + n as usize {
        return Err(format!("writer output for {:?} is {:02x?}: declared size {} but {} payload bytes", p, bytes, n, bytes.len() - start));
    }
    let pay = &bytes[start..];
    match p {
        Payload::U(v) => {
            if pay.len() != min_uint_width(*v) {
                return Err(format!("u64 {} written in {} bytes ({:02x?}); minimal of 1/2/4/8 is {}", v, pay.len(), pay, min_uint_width(*v)));
            }
            let lib = guarded(|| tools::arr_to_u64(pay)).map_err(|e| format!("arr_to_u64 panicked: {}", e))?;
            if !matches!(lib, Ok(x) if x == *v) || ref_uint(pay) != Some(*v) {
                return Err(format!("u64 {} written as {:02x?} decodes to {:?} (reference {:?})", v, pay, lib, ref_uint(pay)));
            }
        }
        Payload::I(v) => {
            if pay.len() != min_sint_width(*v) {
                return Err(format!("i64 {} written in {} bytes ({:02x?}); minimal of 1/2/4/8 is {}", v, pay.len(), pay, min_sint_width(*v)));
            }
            let lib = guarded(|| tools::arr_to_i64(pay)).map_err(|e| format!("arr_to_i64 panicked: {}", e))?;
            if !matches!(lib, Ok(x) if x == *v) || ref_sint(pay) != Some(*v) {
                return Err(format!("i64 {} written as {:02x?} decodes to {:?} (reference {:?})", v, pay, lib, ref_sint(pay)));
            }
        }
        Payload::F(bits) => {
            if pay.len() != 8 {
                return Err(format!("f64 bits {:#x} written in {} bytes", bits, pay.len()));
            }
            let lib = guarded(|| tools::arr_to_f64(pay)).map_err(|e| format!("arr_to_f64 panicked: {}", e))?;
            if !matches!(lib, Ok(x) if x.to_bits() == *bits) || ref_float(pay) != Some(*bits) {
                return Err(format!("f64 bits {:#x} written as {:02x?} decodes to bits {:x?}", bits, pay, lib.map(|x| x.to_bits())));
            }
        }
        _ => unreachable!(),
    }
    // and through the iterator: from a slice, and the way a pipe delivers it — byte by byte into the smallest buffer — with one more
    // element behind it, so that this one does not end where the input ends
    let obs = read_all::<DynTag>(&bytes, &ReadCfg::strict());
    if obs != vec![Obs::Item(Flat::Leaf(id, p.clone()), 0)] {
        return Err(format!("document {:02x?} written for {:?} reads back as {}", bytes, p, render_obs(&obs)));
    }
    let mut twice = bytes.clone();
    twice.extend_from_slice(&bytes);
    let steps = vec![RStep::Chunk(1); twice.len()];
    let obs = read_from::<DynTag, _>(ScriptRead::new(&twice, steps), &ReadCfg { capacity: Some(16), ..ReadCfg::strict() }, 8);
    if obs != vec![Obs::Item(Flat::Leaf(id, p.clone()), 0), Obs::Item(Flat::Leaf(id, p.clone()), bytes.len())] {
        return Err(format!("document {:02x?} written twice for {:?} ({:?}) reads back through 1-byte reads and a 16-byte buffer as {}", bytes, p, opt, render_obs(&obs)));
    }
    Ok(4)
}

fn slice_from_args(a: &[u64]) -> Vec<u8> {
    let len = a[0] as usize;
    (0..len).map(|k| a[1 + k / 8].to_be_bytes()[k % 8]).collect()
}

fn pack(b: &[u8]) -> Vec<u64> {
    let mut v = vec![b.len() as u64, 0, 0];
    for (k, x) in b.iter().enumerate() {
        let mut a = v[1 + k / 8].to_be_bytes();
        a[k % 8] = *x;
        v[1 + k / 8] = u64::from_be_bytes(a);
    }
    v
}

fn classify(b: &[u8], c: &mut Case) {
    c.label_if(b.is_empty(), "len0");
    c.label_if(b.len() == 9, "len9");
    c.label_if(b.len() >= 10, "len10_to_16");
    c.label_if(b.len() == 4 || b.len() == 8, "float_len");
    c.label_if(!b.is_empty() && b[0] & 0x80 != 0, "negative");
    c.nontrivial = b.len() != 1;
}

fn st_slice(i: &Input, c: &mut Case) -> Result<(), String> {
    let b = slice_from_args(i.args());
    c.checks += check_slice(&b)?;
    classify(&b, c);
    c.sample_with(|| format!("slice {:02x?}", b));
    Ok(())
}

/// block: all slices of length 2 with first byte args[0], or (args[1]==3) length 3 with 2-byte prefix args[0]
fn st_block(i: &Input, c: &mut Case) -> Result<(), String> {
    let a = i.args();
    let len = a[1] as usize;
    let mut b = vec![0u8; len];
    for k in 0..len - 1 {
        b[k] = (a[0] >> (8 * (len - 2 - k))) as u8;
    }
    for last in 0..=255u8 {
        b[len - 1] = last;
        c.checks += check_slice(&b)?;
    }
    c.units = 256;
    c.nontrivial_units = if len >= 2 { 256 } else { 0 };
    c.label_n("negative", if b[0] & 0x80 != 0 || len == 1 { if len == 1 { 128 } else { 256 } } else { 0 });
    c.sample_with(|| format!("all slices {:02x?}+[00..ff]", &b[..len - 1]));
    Ok(())
}

fn lattice() -> Vec<Vec<u8>> {
    let mut v: Vec<Vec<u8>> = vec![vec![]];
    // "an error otherwise" does not stop at 9 bytes: lengths up to 16 (a 10-byte "extended" float, a 16-byte integer) are slices too
    for len in 1..=16usize {
        v.push(vec![0x00; len]);
        v.push(vec![0xFF; len]);
        let mut a = vec![0xFF; len];
        a[0] = 0x7F;
        v.push(a);
        let mut a = vec![0x00; len];
        a[0] = 0x80;
        v.push(a);
        let mut a = vec![0x00; len];
        a[len - 1] = 1;
        v.push(a);
        for bit in 0..len * 8 {
            let mut a = vec![0x00; len];
            a[bit / 8] |= 0x80 >> (bit % 8);
            v.push(a.clone());
            let inv: Vec<u8> = a.iter().map(|x| !x).collect();
            v.push(inv);
        }
    }
    v.sort();
    v.dedup();
    v
}

fn st_random_slice(i: &Input, c: &mut Case) -> Result<(), String> {
    let mut t = Tape::new(i.tape());
    let len = if t.chance(1, 8) { 10 + t.below(7) } else { t.below(10) };
    let mut b = t.bytes(len);
    if len > 0 {
        match t.below(4) {
            0 => b[0] = 0,
            1 => b[0] = 0x80,
            2 => b[0] = 0xFF,
            _ => {}
        }
    }
    c.checks += check_slice(&b)?;
    classify(&b, c);
    c.key(&b);
    c.sample_with(|| format!("slice {:02x?}", b));
    Ok(())
}

fn st_written(i: &Input, c: &mut Case) -> Result<(), String> {
    let mut t = Tape::new(i.tape());
    let p = match t.below(3) {
        0 => Payload::U(crate::gen::gen_u64(&mut t)),
        1 => Payload::I(crate::gen::gen_i64(&mut t)),
        _ => Payload::F(crate::gen::gen_f64_bits(&mut t)),
    };
    c.checks += check_written(&p)?;
    match &p {
        Payload::U(v) => {
            c.label("written_u");
            let w = min_uint_width(*v);
            c.label_if(w > 1 && *v < (1u64 << (8 * (w / 2))) + 3, "width_boundary");
            c.label_if(w < 8 && *v > (1u64 << (8 * w)) - 4, "width_boundary");
        }
        Payload::I(v) => {
            c.label("written_i");
            c.label_if(*v < 0, "negative");
            let w = min_sint_width(*v);
            let edge = |n: usize| -> i128 { 1i128 << (8 * n - 1) };
            let x = *v as i128;
            c.label_if((x - (edge(w) - 1)).abs() <= 2 || (x + edge(w)).abs() <= 2, "sign_boundary");
        }
        Payload::F(b) => {
            c.label("written_f");
            c.label_if(f64::from_bits(*b).is_nan(), "nan");
        }
        _ => {}
    }
    c.nontrivial = true;
    c.key(&p);
    c.sample_with(|| format!("written {:?}", p));
    Ok(())
}

fn st_written_one(i: &Input, c: &mut Case) -> Result<(), String> {
    let a = i.args();
    let p = match a[0] {
        0 => Payload::U(a[1]),
        1 => Payload::I(a[1] as i64),
        _ => Payload::F(a[1]),
    };
    c.checks += check_written(&p)?;
    c.nontrivial = true;
    c.sample_with(|| format!("written {:?}", p));
    Ok(())
}

pub const STAGES: &[Stage] = &[
    Stage { name: "lattice_slices", f: st_slice },
    Stage { name: "enum_slices", f: st_block },
    Stage { name: "random_slices", f: st_random_slice },
    Stage { name: "written_lattice", f: st_written_one },
    Stage { name: "written_random", f: st_written },
];

pub fn run(rc: &mut RunCtx) {
    let lat = lattice();
    rc.run_indexed(STAGES[0], lat.len() as u64, true, &|i| Input::Args(pack(&lat[i as usize])));
    let mut plan: Vec<(u64, u64)> = vec![(0, 1)];
    for p in 0..256u64 {
        plan.push((p, 2));
    }
    {
        for p in 0..65536u64 {
            plan.push((p, 3));
        }
    }
    rc.run_indexed(STAGES[1], plan.len() as u64, true, &|i| Input::Args(vec![plan[i as usize].0, plan[i as usize].1]));
    rc.run_pt(STAGES[2], rc.pick(1_000_000, 10_000_000), (8, 8));
    // written values: lattice of C15 reused for integers, specials for floats
    let mut w: Vec<(u64, u64)> = Vec::new();
    for v in super::c15::lattice_u() {
        w.push((0, v));
    }
    for v in super::c15::lattice_s() {
        w.push((1, v as u64));
    }
    for k in 1..=8u32 {
        for d in -2i64..=2 {
            let e = if k == 8 { i64::MIN } else { 1i64 << (8 * k - 1) };
            w.push((1, e.wrapping_add(d) as u64));
            w.push((1, e.wrapping_neg().wrapping_add(d) as u64));
        }
    }
    for b in crate::gen::F64_SPECIALS {
        w.push((2, b));
    }
    w.sort();
    w.dedup();
    rc.run_indexed(STAGES[3], w.len() as u64, true, &|i| Input::Args(vec![w[i as usize].0, w[i as usize].1]));
    rc.run_pt(STAGES[4], rc.pick(300_000, 4_000_000), (12, 12));
    rc.require_label("random_slices", "len0", 50_000);
    rc.require_label("random_slices", "len9", 50_000);
    rc.require_label("random_slices", "len10_to_16", 50_000);
    rc.require_label("written_random", "sign_boundary", 10_000);
    rc.require_label("written_random", "width_boundary", 10_000);
    if !rc.quick() {
        rc.run_fuzz(None, 16);
    }
}
