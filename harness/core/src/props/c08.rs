//! C08 — buffered (Full) masters are exactly the flat stream rolled up.

use crate::drive::*;
use crate::model::*;
use crate::mutate::*;
use crate::runner::*;
use crate::tape::Tape;
use crate::with_spec;

pub const RULE: &str = "inputs from the reader mix (valid, non-canonical, mutated incl. truncations, mid-document, adversarial; known/unknown sizes; specs with masters that nest in themselves) \
× EVERY subset of the specification's master ids as buffered set when the spec has <= 6 masters (12 tape-chosen subsets otherwise, always incl. 'all masters') × one tolerance setting per case. \
Oracle (metamorphic, against the unbuffered parse of the same bytes): replacing each Full by Start, children (recursively), End gives the unbuffered item sequence when that ends cleanly (and the buffered parse ends cleanly too); \
if the unbuffered parse ends in an error the buffered one ends in an error after a prefix of that flattening; items outside buffered masters keep their offsets and a Full reports its Start's offset. \
Each (input, subset) is one evaluation. Non-trivial: a Full that contains another master, an error/truncation inside a buffered master, or an unknown-size buffered master; distinct by (input, subset).";

pub const ASSUMPTIONS: &[&str] = &[
    "C03/C06/C12 anchor the unbuffered parse itself to ground truth; this check is the equality the property states",
    "default end-of-stream closing (the property does not quantify over that switch)",
];

fn contains_master(f: &Flat) -> bool {
    match f {
        Flat::Full(_, ch) => ch.iter().any(|c| matches!(c, Flat::Full(..))),
        _ => false,
    }
}

fn stage(i: &Input, c: &mut Case) -> Result<(), String> {
    let mut t = Tape::new(i.tape());
    let m = gen_mixed(&mut t, MixOpts { weights: [3, 3, 6, 1, 1, 2], ..MixOpts::default() });
    let masters = m.spec.table().masters();
    let tolerate = if t.chance(2, 3) { 0 } else { t.below(8) as u8 };
    let capacity = if t.chance(1, 4) { Some(*t.pick(&[16usize, 33, 64])) } else { None };
    let (max_size, _) = safe_max_size(&m.bytes, MaxSize::Untouched);
    let base = ReadCfg { tolerate, capacity, max_size, ..ReadCfg::default() };
    let subsets: Vec<Vec<u64>> = if masters.len() <= 6 {
        (1u32..(1 << masters.len())).map(|mask| masters.iter().enumerate().filter(|(k, _)| mask >> k & 1 == 1).map(|(_, id)| *id).collect()).collect()
    } else {
        let mut v = vec![masters.clone()];
        for _ in 0..11 {
            let mask = t.u64();
            let s: Vec<u64> = masters.iter().enumerate().filter(|(k, _)| mask >> (k % 64) & 1 == 1).map(|(_, id)| *id).collect();
            if !s.is_empty() {
                v.push(s);
            }
        }
        v
    };
    c.label(m.origin.label());
    c.label(if masters.len() <= 6 { "all_subsets" } else { "sampled_subsets" });
    c.label_if(tolerate != 0, "tolerant");
    c.sample_with(|| format!("{} | {} buffered subsets | cfg {}", describe_mixed(&m), subsets.len(), base.render()));
    let mut units = 0u64;
    let mut nontrivial = 0u64;
    let (mut n_nested, mut n_err_inside, mut n_unknown_buf, mut n_full) = (0u64, 0u64, 0u64, 0u64);
    with_spec!(m.spec, T => {
        let p = read_all::<T>(&m.bytes, &base);
        if let Some(Obs::Panic(msg)) = p.last() {
            return Err(format!("unbuffered parse panicked: {}\n  input: {}", msg, describe_mixed(&m)));
        }
        let p_items: Vec<(Flat, usize)> = p.iter().filter_map(|o| if let Obs::Item(f, off) = o { Some((f.clone(), *off)) } else { None }).collect();
        let p_clean = first_err(&p).is_none();
        // ids of masters that occur with unknown size at all (for the non-trivial rule)
        for b in &subsets {
            let cfg = ReadCfg { buffered: b.clone(), ..base.clone() };
            let f = read_all::<T>(&m.bytes, &cfg);
            units += 1;
            let ctx = |e: String| format!("{}\n  buffered set {:x?}\n  buffered parse:   {}\n  unbuffered parse: {}\n  input: {}\n  cfg: {}", e, b, render_obs(&f), render_obs(&p), describe_mixed(&m), cfg.render());
            match f.last() {
                Some(Obs::Panic(msg)) => return Err(ctx(format!("buffered parse panicked: {}", msg))),
                Some(Obs::Runaway(n)) => return Err(ctx(format!("buffered parse produced more than {} items", n))),
                _ => {}
            }
            let f_clean = first_err(&f).is_none();
            // unroll with offsets: (item, Some(offset)) for items whose offset is observable
            let mut un: Vec<(Flat, Option<usize>)> = Vec::new();
            let mut fulls = 0;
            let mut nested = false;
            for o in &f {
                if let Obs::Item(it, off) = o {
                    match it {
                        Flat::Full(id, _) => {
                            fulls += 1;
                            nested |= contains_master(it);
                            let flat = unroll(std::slice::from_ref(it));
                            let n = flat.len();
                            for (k, x) in flat.into_iter().enumerate() {
                                // the Full's offset is that of its Start; its End reports the same offset
                                let o = if k == 0 || k == n - 1 { Some(*off) } else { None };
                                let _ = id;
                                un.push((x, o));
                            }
                        }
                        other => un.push((other.clone(), Some(*off))),
                    }
                }
            }
            if p_clean {
                if !f_clean {
                    return Err(ctx(format!("the unbuffered parse ends cleanly but the buffered parse ends in {}", first_err(&f).unwrap().short())));
                }
                if un.len() != p_items.len() {
                    return Err(ctx(format!("unrolled buffered parse has {} items, the unbuffered parse {}", un.len(), p_items.len())));
                }
            } else {
                if f_clean {
                    return Err(ctx("the unbuffered parse ends in an error but the buffered parse ends cleanly".to_string()));
                }
                if un.len() > p_items.len() {
                    return Err(ctx(format!("unrolled buffered parse has {} items before its error, the unbuffered parse only {}", un.len(), p_items.len())));
                }
            }
            for (k, (it, off)) in un.iter().enumerate() {
                if *it != p_items[k].0 {
                    return Err(ctx(format!("unrolled item {} is {:?}, the unbuffered parse has {:?}", k, it, p_items[k].0)));
                }
                if let Some(o) = off {
                    if *o != p_items[k].1 {
                        return Err(ctx(format!("item {} ({:?}) reports offset {} in the buffered parse and {} in the unbuffered one", k, it, o, p_items[k].1)));
                    }
                }
            }
            c.checks += un.len() as u64 + 1;
            // non-trivial classification
            let err_inside = !p_clean && {
                // the unbuffered prefix that the buffered parse lost lies inside a buffered master
                un.len() < p_items.len()
            };
            let unknown_buf = fulls > 0 && p_items.iter().any(|(it, off)| {
                matches!(it, Flat::Start(id) if b.contains(id) && matches!(crate::refmodel::ref_header(&m.bytes, *off), crate::refmodel::RefHeader::Ok { size: crate::refmodel::RefSize::Unknown, .. }))
            });
            if nested || err_inside || unknown_buf {
                nontrivial += 1;
            }
            n_nested += nested as u64;
            n_err_inside += err_inside as u64;
            n_unknown_buf += unknown_buf as u64;
            n_full += (fulls > 0) as u64;
        }
    });
    c.units = units.max(1);
    c.nontrivial_units = nontrivial;
    c.key(&(&m.bytes, tolerate));
    c.label_n("full_contains_master", n_nested);
    c.label_n("error_inside_buffered_master", n_err_inside);
    c.label_n("unknown_size_buffered_master", n_unknown_buf);
    c.label_n("has_full", n_full);
    Ok(())
}

pub const STAGES: &[Stage] = &[Stage { name: "rollup", f: stage }];

pub fn run(rc: &mut RunCtx) {
    rc.run_pt(STAGES[0], rc.pick(96_000, 500_000), (96, 500));
    for l in ["full_contains_master", "error_inside_buffered_master", "unknown_size_buffered_master", "all_subsets"] {
        rc.require_label("rollup", l, 10_000);
    }
    if !rc.quick() {
        rc.run_fuzz(Some(STAGES[0]), 300);
    }
}
