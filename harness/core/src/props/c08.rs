//! C08 — buffered (Full) masters are exactly the flat stream rolled up.

use crate::drive::*;
use crate::model::*;
use crate::mutate::*;
use crate::runner::*;
use crate::tape::Tape;
use crate::with_spec;

pub const RULE: &str = "(stage rollup_deep_nesting: the same oracle on documents nested 28-300 masters deep over a recursive template or generated specification, innermost masters of unknown size, a third mutated.) inputs from the reader mix (valid, non-canonical, mutated incl. truncations, mid-document, adversarial; known/unknown sizes; specs with masters that nest in themselves) \
× EVERY subset of the specification's master ids as buffered set when the spec has <= 6 masters (12 tape-chosen subsets otherwise, always incl. 'all masters') × one tolerance setting per case. \
Oracle (metamorphic, against the unbuffered parse of the same bytes): replacing each Full by Start, children (recursively), End gives the unbuffered item sequence when that ends cleanly (and the buffered parse ends cleanly too); \
if the unbuffered parse ends in an error the buffered one ends in an error after a prefix of that flattening; items outside buffered masters keep their offsets and a Full reports its Start's offset. \
Each (input, subset) is one evaluation. Non-trivial: a Full that contains another master, an error/truncation inside a buffered master, or an unknown-size buffered master; distinct by (input, subset).";

pub const ASSUMPTIONS: &[&str] = &[
    "C03/C06/C12 anchor the unbuffered parse itself to ground truth; this check is the equality the property states",
    "default end-of-stream closing (the property does not quantify over that switch)",
];

fn contains_master(f: &Flat) -> bool {
    match f {
        Flat::Full(_, ch) => ch.iter().any(|c| matches!(c, Flat::Full(..))),
        _ => false,
    }
}

fn stage(i: &Input, c: &mut Case) -> Result<(), String> {
    let mut t = Tape::new(i.tape());
    let m = gen_mixed(&mut t, MixOpts { weights: [3, 3, 6, 1, 1, 2], ..MixOpts::default() });
    rollup(t, m, c)
}

/// the same relation on documents nested 28 .. 300 masters deep (`gen_deep`): buffered masters inside buffered masters of the same id
fn stage_deep(i: &Input, c: &mut Case) -> Result<(), String> {
    let mut t = Tape::new(i.tape());
    let m = gen_deep(&mut t, false);
    c.label("nested_28_to_300_deep");
    rollup(t, m, c)
}

fn rollup(mut t: Tape, m: MixedInput, c: &mut Case) -> Result<(), String> {
    let masters = m.spec.table().masters();
    let tolerate = if t.chance(2, 3) { 0 } else { t.below(8) as u8 };
    let capacity = if t.chance(1, 4) { Some(*t.pick(&[16usize, 33, 64])) } else { None };
    let (max_size, _) = safe_max_size(&m.bytes, MaxSize::Untouched);
    let base = ReadCfg { tolerate, capacity, max_size, ..ReadCfg::default() };
    let subsets: Vec<Vec<u64>> = if masters.len() <= 6 {
        (1u32..(1 << masters.len())).map(|mask| masters.iter().enumerate().filter(|(k, _)| mask >> k & 1 == 1).map(|(_, id)| *id).collect()).collect()
    } else {
        let mut v = vec![masters.clone()];
        for _ in 0..11 {
            let mask = t.u64();
            let s: Vec<u64> = masters.iter().enumerate().filter(|(k, _)| mask >> (k % 64) & 1 == 1).map(|(_, id)| *id).collect();
            if !s.is_empty() {
                v.push(s);
            }
        }
        v
    };
    c.label(m.origin.label());
    c.label(if masters.len() <= 6 { "all_subsets" } else { "sampled_subsets" });
    c.label_if(tolerate != 0, "tolerant");
    c.sample_with(|| format!("{} | {} buffered subsets | cfg {}", describe_mixed(&m), subsets.len(), base.render()));
    let mut units = 0u64;
    let mut nontrivial = 0u64;
    let (mut n_nested, mut n_err_inside, mut n_unknown_buf, mut n_full) = (0u64, 0u64, 0u64, 0u64);
    with_spec!(m.spec, T => {
        let p = read_all::<T>(&m.bytes, &base);
        if let Some(Obs::Panic(msg)) = p.last() {
            return Err(format!("unbuffered parse panicked: {}\n  input: {}", msg, describe_mixed(&m)));
        }
        let p_items: Vec<(Flat, usize)> = p.iter().filter_map(|o| if let Obs::Item(f, off) = o { Some((f.clone(), *off)) } else { None }).collect();
        let p_clean = first_err(&p).is_none();
        // ids of masters that occur with unknown size at all (for the non-trivial rule)
        for b in &subsets {
            let cfg = ReadCfg { buffered: b.clone(), ..base.clone() };
            let f = read_all::<T>(&m.bytes, &cfg);
            units += 1;
            let ctx = |e: String| format!("{}\n  buffered set {:x?}\n  buffered parse:   {}\n  unbuffered parse: {}\n  input: {}\n  cfg: {}", e, b, render_obs(&f), render_obs(&p), describe_mixed(&m), cfg.render());
            match f.last() {
                Some(Obs::Panic(msg)) => return Err(ctx(format!("buffered parse panicked: {}", msg))),
                Some(Obs::Runaway(n)) => return Err(ctx(format!("buffered parse produced more than {} items", n))),
                _ => {}
            }
            let f_clean = first_err(&f).is_none();
            // unroll with offsets: (item, Some(offset)) for items whose offset is observable
            let mut un: Vec<(Flat, Option<usize>)> = Vec::new();
            let mut fulls = 0;
            let mut nested = false;
            for o in &f {
                if let Obs::Item(it, off) = o {
                    match it {
                        Flat::Full(id, _) => {
                            fulls += 1;
                            nested |= contains_master(it);
                            let flat = unroll(std::slice::from_ref(it));
                            let n = flat.len();
                            for (k, x) in flat.into_iter().enumerate() {
                                // the Full's offset is that of its Start; its End reports the same offset
                                let o = if k == 0 || k == n - 1 { Some(*off) } else { None };
                                let _ = id;
                                un.push((x, o));
                            }
                        }
                        other => un.push((other.clone(), Some(*off))),
                    }
                }
            }
            if p_clean {
                if !f_clean {
                    return Err(ctx(format!("the unbuffered parse ends cleanly but the buffered parse ends in {}", first_err(&f).unwrap().short())));
                }
                if un.len() != p_items.len() {
                    return Err(ctx(format!("unrolled buffered parse has {} items, the unbuffered parse {}", un.len(), p_items.len())));
                }
            } else {
                if f_clean {
                    return Err(ctx("the unbuffered parse ends in an error but the buffered parse ends cleanly".to_string()));
                }
                if un.len() > p_items.len() {
                    return Err(ctx(format!("unrolled buffered parse has {} items before its error, the unbuffered parse only {}", un.len(), p_items.len())));
                }
            }
            for (k, (it, off)) in un.iter().enumerate() {
                if *it != p_items[k].0 {
                    return Err(ctx(format!("unrolled item {} is {:?}, the unbuffered parse has {:?}", k, it, p_items[k].0)));
                }
                if let Some(o) = off {
                    if *o != p_items[k].1 {
                        return Err(ctx(format!("item {} ({:?}) reports offset {} in the buffered parse and {} in the unbuffered one", k, it, o, p_items[k].1)));
                    }
                }
            }
            c.checks += un.len() as u64 + 1;
            // non-trivial classification
            let err_inside = !p_clean && {
                // the unbuffered prefix that the buffered parse lost lies inside a buffered master
                un.len() < p_items.len()
            };
            let unknown_buf = fulls > 0 && p_items.iter().any(|(it, off)| {
                matches!(it, Flat::Start(id) if b.contains(id) && matches!(crate::refmodel::ref_header(&m.bytes, *off), crate::refmodel::RefHeader::Ok { size: crate::refmodel::RefSize::Unknown, .. }))
            });
            if nested || err_inside || unknown_buf {
                nontrivial += 1;
            }
            n_nested += nested as u64;
            n_err_inside += err_inside as u64;
            n_unknown_buf += unknown_buf as u64;
            n_full += (fulls > 0) as u64;
        }
    });
    c.units = units.max(1);
    c.nontrivial_units = nontrivial;
    c.key(&(&m.bytes, tolerate));
    c.label_n("full_contains_master", n_nested);
    c.label_n("error_inside_buffered_master", n_err_inside);
    c.label_n("unknown_size_buffered_master", n_unknown_buf);
    c.label_n("has_full", n_full);
    Ok(())
}

/// the same relation when buffering is interrupted: end-of-stream closing off, the source reports a temporary end of file at tag
/// boundaries and next() is called again. Every pause leaves a buffered master half collected; what is finally emitted must still be
/// the flat stream rolled up. (With closing off, a buffered master that is still open at the very end never becomes a Full item: the
/// unrolled buffered parse may then stop short, right before that master's Start.)
fn stage_interrupted(i: &Input, c: &mut Case) -> Result<(), String> {
    let mut t = Tape::new(i.tape());
    let m = gen_mixed(&mut t, MixOpts { weights: [4, 3, 4, 0, 0, 1], ..MixOpts::default() });
    let masters = m.spec.table().masters();
    if masters.is_empty() {
        c.skipped = true;
        return Ok(());
    }
    let tolerate = if t.chance(2, 3) { 0 } else { t.below(8) as u8 };
    let capacity = if t.chance(1, 3) { Some(*t.pick(&[16usize, 24, 33, 64])) } else { None };
    let (max_size, _) = safe_max_size(&m.bytes, MaxSize::Untouched);
    let mut buffered: Vec<u64> = Vec::new();
    for id in &masters {
        if t.chance(1, 2) {
            buffered.push(*id);
        }
    }
    if buffered.is_empty() {
        buffered.push(masters[t.below(masters.len())]);
    }
    let flat_cfg = ReadCfg { tolerate, max_size, eof_close: false, ..ReadCfg::default() };
    let cfg = ReadCfg { buffered: buffered.clone(), capacity, ..flat_cfg.clone() };
    c.label(m.origin.label());
    with_spec!(m.spec, T => {
        let p = read_all::<T>(&m.bytes, &flat_cfg);
        if let Some(Obs::Panic(msg)) = p.last() {
            return Err(format!("unbuffered parse panicked: {}\n  input: {}", msg, describe_mixed(&m)));
        }
        let bounds = super::c04::tag_boundaries(&p, m.bytes.len());
        let (steps, pauses) = super::c04::gen_pause_script(&mut t, &bounds);
        c.label_if(pauses > 0, "has_pause");
        c.key(&(&m.bytes, &format!("{:?}", steps), capacity, tolerate, &buffered));
        c.sample_with(|| format!("{} | script {:?} | cfg {}", describe_mixed(&m), &steps[..steps.len().min(30)], cfg.render()));
        let (f, nones) = super::c04::read_paused::<T>(&m.bytes, steps.clone(), &cfg)?;
        let ctx = |e: String| format!("{}\n  buffered set {:x?}\n  script: {:?}\n  buffered parse (interrupted): {}\n  unbuffered parse:             {}\n  input: {}\n  cfg: {}", e, buffered, &steps[..steps.len().min(64)], render_obs(&f), render_obs(&p), describe_mixed(&m), cfg.render());
        match f.last() {
            Some(Obs::Panic(msg)) => return Err(ctx(format!("buffered parse panicked: {}", msg))),
            Some(Obs::Runaway(n)) => return Err(ctx(format!("buffered parse did not end within {} calls", n))),
            _ => {}
        }
        let p_items: Vec<Flat> = items_of(&p);
        let un: Vec<Flat> = unroll(&items_of(&f));
        let fulls = f.iter().filter(|o| matches!(o, Obs::Item(Flat::Full(..), _))).count();
        if un.len() > p_items.len() {
            return Err(ctx(format!("unrolled buffered parse has {} items, the unbuffered parse only {}", un.len(), p_items.len())));
        }
        for (k, it) in un.iter().enumerate() {
            if *it != p_items[k] {
                return Err(ctx(format!("unrolled item {} is {:?}, the unbuffered parse has {:?}", k, it, p_items[k])));
            }
        }
        if un.len() < p_items.len() {
            // what is missing starts with a buffered master that could not be completed (its End never came, or an error lies inside it)
            match &p_items[un.len()] {
                Flat::Start(id) if buffered.contains(id) => {}
                other => return Err(ctx(format!("the buffered parse stops before {:?} (item {}), which is not the Start of a buffered master", other, un.len()))),
            }
        }
        if first_err(&p).is_none() && first_err(&f).is_some() {
            return Err(ctx(format!("the unbuffered parse ends cleanly but the interrupted buffered parse ends in {}", first_err(&f).unwrap().short())));
        }
        c.checks += un.len() as u64 + 1;
        c.nontrivial = pauses > 0 && fulls > 0;
        c.label_if(pauses > 0 && fulls > 0, "full_item_collected_across_a_pause");
        c.label_if(nones > 1, "none_then_more_items");
        Ok(())
    })
}

pub const STAGES: &[Stage] = &[Stage { name: "rollup", f: stage }, Stage { name: "rollup_interrupted", f: stage_interrupted }, Stage { name: "rollup_deep_nesting", f: stage_deep }];

pub fn run(rc: &mut RunCtx) {
    rc.run_pt(STAGES[0], rc.pick(96_000, 500_000), (96, 500));
    rc.run_pt(STAGES[1], rc.pick(160_000, 800_000), (96, 500));
    rc.run_pt(STAGES[2], rc.pick(2_000, 15_000), (64, 200));
    rc.require_label("rollup_interrupted", "full_item_collected_across_a_pause", 20_000);
    for l in ["full_contains_master", "error_inside_buffered_master", "unknown_size_buffered_master", "all_subsets"] {
        rc.require_label("rollup", l, 10_000);
    }
    if !rc.quick() {
        rc.run_fuzz(Some(STAGES[0]), 300);
    }
}
