//! C01 — write → read round trip reproduces every accepted tag sequence exactly.

use crate::drive::*;
use crate::gen::*;
use crate::model::*;
use crate::props::common::*;
use crate::runner::*;
use crate::tape::Tape;
use crate::with_spec;

pub const RULE: &str = "(specification, conformant tag forest, per-tag presentation) decoded from a proptest choice tape: spec = generated DynSpec (ids of 1-8 bytes, depth <= 6, \
global placeholders) or the macro-derived RichSpec; payload lengths from {0,1,2,7,8,9,126..129,16382..16384} ∪ small ∪ 100..300 (thorough: also 65535..70000 and 2^21±1); presentation per tag \
default | size width 1-8 | unknown size | Full (masters inside a Full item as nested Full or as Start/End children of it); a variant mixes in raw tags and reads with InvalidTagIds tolerated; a third of the documents are written a second time with some default-option leaves handed over through write_raw(id, payload bytes) and must read back the same; every output is also read back through a small buffer and/or short reads. Oracle: every write is Ok, the strict read of the written bytes equals flatten(forest) \
item by item (floats by bits) with no error. One case in five mixes raw tags (ids outside the specification) in and reads with InvalidTagIds tolerated - inside unknown-size masters too (directly after one they are excluded like global elements). Stage roundtrip_huge: payloads of 64 KiB - 2 MiB, half of the cases with one forced onto an element (half of those: the first child of an unknown-size master below unknown-size ancestors only). Non-trivial: a master with >= 1 child and >= 1 of {boundary length, explicit width, unknown size, Full, negative integer, float, raw tag}; distinct by hash of (spec, forest).";

pub const ASSUMPTIONS: &[&str] = &[
    "explicit widths are drawn from those that can hold the size (the all-ones value is the reserved 'unknown'); too-small widths are C19/C09's business",
    "excluded by construction and counted: unknown size on a master whose declared path has a placeholder when another element follows it at its own level or when something inside it would close it by some reading of the rule (an element of the identical path or of an ancestor's type) — elsewhere such masters do get unknown sizes; a global element directly after an unknown-size master (RFC 8794 6.2: ambiguous, C07 states the same exclusion); unknown size together with raw tags",
    "the expected sequence comes from the generator, not from the library",
];

fn stage_main(i: &Input, c: &mut Case) -> Result<(), String> {
    let mut t = Tape::new(i.tape());
    run_case(&mut t, c, false)
}

fn stage_huge(i: &Input, c: &mut Case) -> Result<(), String> {
    let mut t = Tape::new(i.tape());
    run_case(&mut t, c, true)
}

fn run_case(t: &mut Tape, c: &mut Case, huge: bool) -> Result<(), String> {
    let raw_variant = t.chance(1, 5);
    let to = TreeOpts { pay: PayOpts { big_left: if huge { 2 } else { 1 }, huge, max_small: 40 }, deep: t.chance(1, 3), ..TreeOpts::default() };
    let eo = EncOpts { widths: true, unknown: true, full: true, noncanonical: false };
    let mut d = gen_doc(t, SpecOpts::default(), to, eo);
    note_cleared(c, &d);
    let mut tol = 0;
    if raw_variant {
        let n = insert_raw_tags(t, &d.spec.table().clone(), &mut d.forest);
        // an element the specification does not know never ends an unknown-size master (RFC 8794 6.2), so directly after one it would be
        // read as part of it: same exclusion as for global elements (4.1-b); inside unknown-size masters raw tags are welcome
        let cl = sanitize_unknown(d.spec.table(), &mut d.forest, true);
        d.cleared.0 += cl.0;
        d.cleared.1 += cl.1;
        for _ in 0..cl.1 {
            c.exclude("raw_tag_directly_after_unknown_size_master");
        }
        fix_widths(&mut d.forest);
        if n > 0 {
            tol = TOL_IDS;
        }
        c.label_if(n > 0 && any_node(&d.forest, &|m| m.is_master() && m.enc.unknown && m.children().iter().any(|x| matches!(x.kind, NodeKind::Leaf(Payload::Raw(_))))), "raw_tag_inside_unknown_size_master");
    }
    // probe: an element whose size equals the all-ones value of an explicitly requested width (127 in 1 byte, 16383 in 2):
    // the writer must either reject it (then it is not part of the accepted sequence) or emit something that reads back
    let mut probe = false;
    if t.chance(1, 3) {
        probe = insert_probe(t, &mut d);
        if probe {
            let cl = sanitize_unknown(d.spec.table(), &mut d.forest, true);
            d.cleared.0 += cl.0;
            d.cleared.1 += cl.1;
            fix_widths(&mut d.forest);
        }
    }
    if huge && !probe && t.chance(1, 2) {
        let n = *t.pick(&[65_536usize, 70_000, 1 << 20, (1 << 20) + 5, (1 << 21) + 1]);
        let (done, first) = if t.chance(1, 2) { enlarge_first_child_of_streamed_master(t, &mut d.forest, n) } else { (enlarge_one_leaf(t, &mut d.forest, n), false) };
        if done {
            fix_widths(&mut d.forest);
            c.label("forced_payload_64KiB_to_2MiB");
            c.label_if(first, "big_first_child_of_streamed_master");
        }
    }
    c.label_if(probe, "reserved_width_probe");
    doc_labels(c, &d);
    let special = ["boundary_len", "explicit_width", "unknown_size", "has_full", "neg_int", "float", "raw_tags"];
    c.nontrivial = has_nested_master(&d.forest) && c.labels.iter().any(|l| special.contains(l));
    c.key(&(d.spec.table().elems.clone(), &d.forest));
    c.sample_with(|| describe_doc(&d));

    let ops = forest_ops(&d.forest);
    let cfg = ReadCfg { tolerate: tol, ..ReadCfg::default() };
    with_spec!(d.spec, T => {
        let mut w = Wr::<T>::new(RecDest::new());
        let mut rejected_probe = false;
        for (k, op) in ops.iter().enumerate() {
            let is_probe = matches!(op, WOp::Write(Flat::Leaf(_, p), WOpt::Width(wd)) if payload_len(p) == (1usize << (7 * *wd as usize)) - 1);
            match w.apply(op) {
                Ok(()) => {}
                Err(WErr::TagSize(_)) if is_probe => rejected_probe = true,
                Err(e) => return Err(format!("writer rejected call #{} {} of a conformant sequence: {:?}\n  ops: {}", k, op.short(), e, render_ops(&ops))),
            }
        }
        let bytes = w.finish().map_err(|e| format!("flush failed: {:?}\n  ops: {}", e, render_ops(&ops)))?;
        c.checks += ops.len() as u64;
        c.label_if(probe && rejected_probe, "probe_rejected_by_writer");
        c.label_if(probe && !rejected_probe, "probe_accepted_by_writer");
        let mut expected_forest = d.forest.clone();
        if rejected_probe {
            remove_marked(&mut expected_forest);
        }
        let want = flatten(&expected_forest);
        let obs = read_all::<T>(&bytes, &cfg);
        c.checks += want.len() as u64;
        expect_exact(&obs, &want, "reading back the writer's output").map_err(|m| format!("{}\n  ops: {}\n  bytes({}): {}", m, render_ops(&ops), bytes.len(), short_bytes(&bytes)))?;
        // and once more the way a file or socket delivers it: small buffer and/or short reads
        let cap = *t.pick(&[None, Some(16usize), Some(17), Some(33), Some(64), Some(4096)]);
        let chunk = *t.pick(&[0usize, 1, 3, 7, 16, 61]);
        if cap.is_some() || chunk > 0 {
            let cfg2 = ReadCfg { capacity: cap, ..cfg.clone() };
            let steps: Vec<RStep> = if chunk == 0 { vec![] } else { (0..bytes.len().div_ceil(chunk)).map(|_| RStep::Chunk(chunk)).collect() };
            let obs2 = read_from::<T, _>(ScriptRead::new(&bytes, steps), &cfg2, item_bound(bytes.len()));
            c.label("read_back_chunked_or_small_buffer");
            expect_exact(&obs2, &want, "reading back the writer's output through a small buffer / short reads")
                .map_err(|m| format!("{}\n  capacity {:?}, reads of {} bytes\n  ops: {}\n  bytes({}): {}", m, cap, chunk, render_ops(&ops), bytes.len(), short_bytes(&bytes)))?;
        }
        // and the same document with some leaves handed over through write_raw(id, payload bytes): raw tags (ids outside the
        // specification) are what that call is for, declared leaves given as their encoded payload are accepted just the same;
        // the strict reader must return the same tags. (Drawn last from the tape so that recorded tapes keep their meaning.)
        if t.chance(1, 3) {
            let mut ops2 = ops.clone();
            let n = rawify_ops(t, &mut ops2, 1, 2, false);
            if n > 0 {
                c.label("leaves_through_write_raw");
                let mut w = Wr::<T>::new(RecDest::new());
                for (k, op) in ops2.iter().enumerate() {
                    let is_probe = matches!(op, WOp::Write(Flat::Leaf(_, p), WOpt::Width(wd)) if payload_len(p) == (1usize << (7 * *wd as usize)) - 1);
                    match w.apply(op) {
                        Ok(()) => {}
                        Err(WErr::TagSize(_)) if is_probe => {}
                        Err(e) => return Err(format!("writer rejected call #{} {} of a conformant sequence (leaves through write_raw): {:?}\n  ops: {}", k, op.short(), e, render_ops(&ops2))),
                    }
                }
                let bytes2 = w.finish().map_err(|e| format!("flush failed: {:?}\n  ops: {}", e, render_ops(&ops2)))?;
                let obs3 = read_all::<T>(&bytes2, &cfg);
                c.checks += want.len() as u64;
                expect_exact(&obs3, &want, "reading back the writer's output (some leaves written with write_raw)").map_err(|m| format!("{}\n  ops: {}\n  bytes({}): {}", m, render_ops(&ops2), bytes2.len(), short_bytes(&bytes2)))?;
            }
        }
        Ok(())
    })
}

fn payload_len(p: &Payload) -> usize {
    match p {
        Payload::S(s) => s.len(),
        Payload::B(b) | Payload::Raw(b) => b.len(),
        _ => usize::MAX,
    }
}

fn remove_marked(f: &mut Vec<Node>) {
    f.retain(|n| !n.enc.mark);
    for n in f.iter_mut() {
        if let Some(ch) = n.children_mut() {
            remove_marked(ch);
        }
    }
}

/// insert a string/binary leaf of length 2^(7w)-1 with explicit width w under a master where the spec allows one
fn insert_probe(t: &mut Tape, d: &mut Doc) -> bool {
    let spec = d.spec.table().clone();
    // collect paths (index lists) of masters that are not handed over as Full (nor inside one)
    fn rec(n: &Node, chain: &mut Vec<u64>, path: &mut Vec<usize>, out: &mut Vec<(Vec<usize>, Vec<u64>)>) {
        if !n.is_master() || n.enc.full {
            return;
        }
        chain.push(n.id);
        out.push((path.clone(), chain.clone()));
        for (i, c) in n.children().iter().enumerate() {
            path.push(i);
            rec(c, chain, path, out);
            path.pop();
        }
        chain.pop();
    }
    let mut sites = Vec::new();
    for (i, n) in d.forest.iter().enumerate() {
        rec(n, &mut Vec::new(), &mut vec![i], &mut sites);
    }
    let usable: Vec<(Vec<usize>, Vec<u64>, Vec<(u64, Ty)>)> = sites
        .into_iter()
        .map(|(p, ch)| {
            let cands: Vec<(u64, Ty)> = spec.elems.iter().filter(|e| matches!(e.ty, Ty::S | Ty::B) && crate::refmodel::ref_match(&e.path, &ch)).map(|e| (e.id, e.ty)).collect();
            (p, ch, cands)
        })
        .filter(|x| !x.2.is_empty())
        .collect();
    if usable.is_empty() {
        return false;
    }
    let (path, _, cands) = &usable[t.below(usable.len())];
    let (id, ty) = cands[t.below(cands.len())];
    let (w, len) = if t.chance(1, 4) { (2u8, 16383usize) } else { (1u8, 127usize) };
    let payload = if ty == Ty::S { Payload::S(gen_string(t, len)) } else { Payload::B(gen_binary(t, len)) };
    let mut node = Node::leaf(id, payload);
    node.enc.size_w = w;
    node.enc.mark = true;
    let mut cur: &mut Node = &mut d.forest[path[0]];
    for &i in &path[1..] {
        cur = &mut cur.children_mut().unwrap()[i];
    }
    let ch = cur.children_mut().unwrap();
    let at = t.below(ch.len() + 1);
    ch.insert(at, node);
    true
}

pub const STAGES: &[Stage] = &[Stage { name: "roundtrip", f: stage_main }, Stage { name: "roundtrip_huge", f: stage_huge }];

pub fn run(rc: &mut RunCtx) {
    rc.run_pt(STAGES[0], rc.pick(640_000, 3_000_000), (96, 640));
    rc.run_pt(STAGES[1], rc.pick(3_000, 12_000), (96, 400));
    for l in ["unknown_size", "boundary_len", "explicit_width", "has_full", "raw_tags", "spec_macro_derived", "depth3plus", "global_element", "reserved_width_probe", "leaves_through_write_raw"] {
        rc.require_label("roundtrip", l, 10_000);
    }
    rc.require_label("roundtrip", "unknown_nested", 5_000);
    if !rc.quick() {
        rc.run_fuzz(Some(STAGES[0]), 320);
    }
}
