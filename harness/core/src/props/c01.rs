//! C01 — write → read round trip reproduces every accepted tag sequence exactly.

use crate::drive::*;
use crate::gen::*;
use crate::model::*;
use crate::props::common::*;
use crate::runner::*;
use crate::tape::Tape;
use crate::with_spec;

pub const RULE: &str = "(specification, conformant tag forest, per-tag presentation) decoded from a proptest choice tape: spec = generated DynSpec (ids of 1-8 bytes, depth <= 6, \
global placeholders) or the macro-derived RichSpec; payload lengths from {0,1,2,7,8,9,126..129,16382..16384} ∪ small ∪ 100..300 (thorough: also 65535..70000 and 2^21±1); presentation per tag \
default | size width 1-8 | unknown size | Full; a variant mixes in raw tags and reads with InvalidTagIds tolerated. Oracle: every write is Ok, the strict read of the written bytes equals flatten(forest) \
item by item (floats by bits) with no error. Non-trivial: a master with >= 1 child and >= 1 of {boundary length, explicit width, unknown size, Full, negative integer, float, raw tag}; distinct by hash of (spec, forest).";

pub const ASSUMPTIONS: &[&str] = &[
    "explicit widths are drawn from those that can hold the size (the all-ones value is the reserved 'unknown'); too-small widths are C19/C09's business",
    "excluded by construction and counted: unknown size on a master whose declared path has a placeholder; a global element directly after an unknown-size master (RFC 8794 6.2: ambiguous, C07 states the same exclusion); unknown size together with raw tags",
    "the expected sequence comes from the generator, not from the library",
];

fn stage_main(i: &Input, c: &mut Case) -> Result<(), String> {
    let mut t = Tape::new(i.tape());
    run_case(&mut t, c, false)
}

fn stage_huge(i: &Input, c: &mut Case) -> Result<(), String> {
    let mut t = Tape::new(i.tape());
    run_case(&mut t, c, true)
}

fn run_case(t: &mut Tape, c: &mut Case, huge: bool) -> Result<(), String> {
    let raw_variant = t.chance(1, 5);
    let to = TreeOpts { pay: PayOpts { big_left: if huge { 2 } else { 1 }, huge, max_small: 40 }, deep: t.chance(1, 3), ..TreeOpts::default() };
    let eo = EncOpts { widths: true, unknown: !raw_variant, full: true, noncanonical: false };
    let mut d = gen_doc(t, SpecOpts::default(), to, eo);
    note_cleared(c, &d);
    let mut tol = 0;
    if raw_variant {
        let n = insert_raw_tags(t, &d.spec.table().clone(), &mut d.forest);
        fix_widths(&mut d.forest);
        if n > 0 {
            tol = TOL_IDS;
        }
        c.exclude("unknown_size_disabled_in_raw_tag_variant");
    }
    doc_labels(c, &d);
    let special = ["boundary_len", "explicit_width", "unknown_size", "has_full", "neg_int", "float", "raw_tags"];
    c.nontrivial = has_nested_master(&d.forest) && c.labels.iter().any(|l| special.contains(l));
    c.key(&(d.spec.table().elems.clone(), &d.forest));
    c.sample_with(|| describe_doc(&d));

    let ops = forest_ops(&d.forest);
    let want = flatten(&d.forest);
    let cfg = ReadCfg { tolerate: tol, ..ReadCfg::default() };
    with_spec!(d.spec, T => {
        let bytes = write_ops::<T>(&ops).map_err(|(k, e)| format!("writer rejected call #{} {} of a conformant sequence: {:?}\n  ops: {}", k, ops.get(k).map(|o| o.short()).unwrap_or("flush".into()), e, render_ops(&ops)))?;
        c.checks += ops.len() as u64;
        let obs = read_all::<T>(&bytes, &cfg);
        c.checks += want.len() as u64;
        expect_exact(&obs, &want, "reading back the writer's output").map_err(|m| format!("{}\n  ops: {}\n  bytes({}): {}", m, render_ops(&ops), bytes.len(), short_bytes(&bytes)))
    })
}

pub const STAGES: &[Stage] = &[Stage { name: "roundtrip", f: stage_main }, Stage { name: "roundtrip_huge", f: stage_huge }];

pub fn run(rc: &mut RunCtx) {
    rc.run_pt(STAGES[0], rc.pick(40_000, 1_500_000), (96, 640));
    if !rc.quick() {
        rc.run_pt(STAGES[1], 1_500, (96, 400));
    }
    for l in ["unknown_size", "boundary_len", "explicit_width", "has_full", "raw_tags", "spec_macro_derived", "depth3plus", "global_element"] {
        rc.require_label("roundtrip", l, 10_000);
    }
    rc.require_label("roundtrip", "unknown_nested", 5_000);
    if !rc.quick() {
        rc.run_fuzz(Some(STAGES[0]), 320);
    }
}
