//! C12 — truncated input yields the complete prefix, then an accurate end-of-file error.

use crate::drive::*;
use crate::gen::*;
use crate::model::*;
use crate::props::common::*;
use crate::refmodel::*;
use crate::runner::*;
use crate::tape::Tape;
use crate::with_spec;

pub const RULE: &str = "valid documents (generated spec or RichSpec; known and unknown-size masters; canonical and non-canonical reference encodings: size widths 1-8, padded integers, \
4-byte floats, 1-8 byte ids; payloads 0..300 bytes) × EVERY cut position 0..=len (exhaustive per document) × one of {slice source, 1-byte reads, random chunking} × capacity {default, 16, 17, 33, 64, len±1}. \
Oracle from the reference encoder's layout (not from the reader): non-End items = exactly the elements complete in the prefix; items emitted form a prefix of the uncut document's sequence that stops before the \
incomplete element; at a tag boundary: Ends of all open masters innermost first, then None; otherwise exactly one UnexpectedEOF with tag_start / tag_id / tag_size / partial_data as the statement fixes them; never a corruption error. \
Stage cuts_beyond_4GiB: the synthesized stream of C03 cut inside group 1 030 (beyond 4 GiB) in the payload, in the group's header, between a payload element's id and size, in the stamp's payload and at the group boundary: same expectation from the generator's arithmetic. Stage big_payload_cuts: a RichSpec document with one Blob of 65-145 KB (1 in 12: 1-3 MiB, cut around header end + 1 MiB too; 1 in 40: 5-6 MiB preceded by a payload 1-1.5 MiB bigger), the same oracle at ~27 sampled cuts (element ends, ±2 around multiples of 64 KiB inside the payload and in the stream, random), slice or chunked source, capacity {default, 16, 64, 4096, 70 000}. Each (document, cut) is one evaluation; non-trivial: cut strictly inside an element; distinct by (document hash, cut).";

pub const ASSUMPTIONS: &[&str] = &[
    "Ends between the last complete tag and the incomplete one may or may not be delivered before the error (the statement fixes tags and the error, not those Ends)",
    "when zero payload bytes are available partial_data may be None or Some([])",
];

/// expected outcome for prefix `p`, computed from the layout
pub struct Expect {
    /// index into flatten(forest) up to which items MUST be present (exclusive)
    pub must: usize,
    /// index up to which items MAY be present (exclusive); == must at a boundary (then closing Ends follow)
    pub may: usize,
    pub boundary: bool,
    /// the incomplete element (index into layout)
    pub incomplete: Option<usize>,
    /// masters open at the cut (ids, outermost first) — only for boundary cuts
    pub open: Vec<u64>,
}

/// positions in flatten(forest) of each element's first item (Start or leaf), in layout order
pub fn flat_positions(forest: &[Node]) -> Vec<usize> {
    let mut pos = Vec::new();
    let mut k = 0usize;
    fn rec(n: &Node, pos: &mut Vec<usize>, k: &mut usize) {
        pos.push(*k);
        *k += 1;
        if n.is_master() {
            for c in n.children() {
                rec(c, pos, k);
            }
            *k += 1; // End
        }
    }
    for n in forest {
        rec(n, &mut pos, &mut k);
    }
    pos
}

pub fn expectation(lay: &[Lay], pos: &[usize], p: usize, total_flat: usize) -> Expect {
    // first element that is not complete in the prefix
    let mut first_incomplete: Option<usize> = None;
    for (i, l) in lay.iter().enumerate() {
        let complete = if l.is_master { l.header_end <= p } else { l.payload_end <= p };
        if !complete {
            first_incomplete = Some(i);
            break;
        }
    }
    match first_incomplete {
        None => Expect { must: total_flat, may: total_flat, boundary: true, incomplete: None, open: vec![] },
        Some(i) => {
            let l = &lay[i];
            let last_complete_pos = if i == 0 { 0 } else { pos[i - 1] + 1 };
            if l.tag_start >= p {
                // boundary: everything up to the last complete non-End item, then all open masters close
                let mut open = Vec::new();
                if i > 0 {
                    // chain of the last complete element (itself included when it is a master whose content may continue)
                    let mut cur = Some(i - 1);
                    let mut chain = Vec::new();
                    while let Some(ci) = cur {
                        if lay[ci].is_master {
                            chain.push(ci);
                        }
                        cur = lay[ci].parent;
                    }
                    chain.reverse();
                    open = chain.iter().map(|&ci| lay[ci].id).collect();
                }
                Expect { must: last_complete_pos, may: last_complete_pos, boundary: true, incomplete: None, open }
            } else {
                Expect { must: last_complete_pos, may: pos[i], boundary: false, incomplete: Some(i), open: vec![] }
            }
        }
    }
}

pub fn check_cut(obs: &[Obs], flat: &[Flat], lay: &[Lay], pos: &[usize], bytes: &[u8], p: usize) -> Result<(), String> {
    let ex = expectation(lay, pos, p, flat.len());
    let items: Vec<&Flat> = obs
        .iter()
        .take_while(|o| matches!(o, Obs::Item(..)))
        .map(|o| match o {
            Obs::Item(f, _) => f,
            _ => unreachable!(),
        })
        .collect();
    let tail = &obs[items.len()..];
    if ex.boundary {
        // exact: flat[..must] then Ends of the open masters innermost first, then None
        let mut want: Vec<Flat> = flat[..ex.must].to_vec();
        for id in ex.open.iter().rev() {
            want.push(Flat::End(*id));
        }
        if !tail.is_empty() {
            return Err(format!("cut {} is a tag boundary, but the iterator returned {} after {} items", p, tail[0].short(), items.len()));
        }
        if items.len() != want.len() || items.iter().zip(want.iter()).any(|(a, b)| *a != b) {
            let k = items.iter().zip(want.iter()).take_while(|(a, b)| **a == *b).count();
            return Err(format!(
                "cut {} (tag boundary): item {} is {:?}, expected {:?}; got {} items, expected {} (complete prefix + closing Ends innermost first)",
                p,
                k,
                items.get(k),
                want.get(k),
                items.len(),
                want.len()
            ));
        }
        return Ok(());
    }
    let li = ex.incomplete.unwrap();
    let l = &lay[li];
    if items.len() < ex.must || items.len() > ex.may {
        return Err(format!(
            "cut {} inside element {:#x}@{}: {} items emitted, expected between {} and {} (all complete tags, nothing of the incomplete one); then {}",
            p,
            l.id,
            l.tag_start,
            items.len(),
            ex.must,
            ex.may,
            tail.first().map(|o| o.short()).unwrap_or("None".into())
        ));
    }
    for (k, it) in items.iter().enumerate() {
        if **it != flat[k] {
            return Err(format!("cut {}: item {} is {:?}, the document has {:?} there", p, k, it, flat[k]));
        }
    }
    // between must and may only Ends can occur (by construction of flat); then exactly one EOF error
    match tail.first() {
        Some(Obs::Err(ErrK::Eof { tag_start, tag_id, tag_size, partial })) => {
            if *tag_start != l.tag_start {
                return Err(format!("cut {}: UnexpectedEOF.tag_start = {}, the incomplete tag starts at {}", p, tag_start, l.tag_start));
            }
            let id_complete = p >= l.id_end;
            let header_complete = p >= l.header_end;
            match (id_complete, tag_id) {
                (true, Some(x)) if *x == l.id => {}
                (false, None) => {}
                _ => {
                    return Err(format!(
                        "cut {} in element {:#x}@{} (id ends at {}): UnexpectedEOF.tag_id = {:x?}, expected {}",
                        p,
                        l.id,
                        l.tag_start,
                        l.id_end,
                        tag_id,
                        if id_complete { "Some(id)" } else { "None (id bytes incomplete)" }
                    ))
                }
            }
            let declared = l.payload_end - l.header_end;
            match (header_complete && !l.is_master, tag_size) {
                (true, Some(n)) if *n == declared => {}
                (false, None) => {}
                _ => {
                    return Err(format!(
                        "cut {} in element {:#x}@{} (header ends at {}): UnexpectedEOF.tag_size = {:?}, expected {}",
                        p,
                        l.id,
                        l.tag_start,
                        l.header_end,
                        tag_size,
                        if header_complete { format!("Some({})", declared) } else { "None (header incomplete)".into() }
                    ))
                }
            }
            let avail: &[u8] = if header_complete { &bytes[l.header_end..p] } else { &[] };
            let ok = match partial {
                None => avail.is_empty(),
                Some(d) => d.as_slice() == avail,
            };
            if !ok {
                return Err(format!(
                    "cut {} in element {:#x}@{}: partial_data = {}, the available payload bytes are {}",
                    p,
                    l.id,
                    l.tag_start,
                    partial.as_ref().map(|d| short_bytes(d)).unwrap_or("None".into()),
                    short_bytes(avail)
                ));
            }
            Ok(())
        }
        Some(other) => Err(format!(
            "cut {} inside element {:#x}@{} of a valid document: expected UnexpectedEOF, got {}",
            p,
            l.id,
            l.tag_start,
            other.short()
        )),
        None => Err(format!("cut {} inside element {:#x}@{}: the iterator ended normally (None) without an UnexpectedEOF", p, l.id, l.tag_start)),
    }
}

fn stage_doc(i: &Input, c: &mut Case) -> Result<(), String> {
    let mut t = Tape::new(i.tape());
    let noncanon = t.chance(1, 2);
    let to = TreeOpts { max_nodes: 24, pay: PayOpts { big_left: 0, huge: false, max_small: 30 }, deep: t.chance(1, 2), ..TreeOpts::default() };
    let eo = EncOpts { widths: true, unknown: true, full: false, noncanonical: noncanon };
    let d = gen_doc(&mut t, SpecOpts::default(), to, eo);
    note_cleared(c, &d);
    let (bytes, lay) = ref_encode(&d.forest);
    let flat = flatten(&d.forest);
    let pos = flat_positions(&d.forest);
    let len = bytes.len();
    let mode = t.below(3);
    let cap = match t.weighted(&[5, 4, 2]) {
        0 => None,
        1 => Some(*t.pick(&[16usize, 17, 33, 64])),
        _ => Some(if t.chance(1, 2) { len.saturating_sub(1).max(16) } else { len + 1 }),
    };
    let cfg = ReadCfg { capacity: cap, ..ReadCfg::default() };
    let chunk_seed = t.raw();
    doc_labels(c, &d);
    c.label(match mode {
        0 => "source_slice",
        1 => "source_1byte_reads",
        _ => "source_random_chunks",
    });
    c.label_if(cap.is_some(), "small_capacity");
    c.label_if(noncanon, "noncanonical_encoding");
    c.sample_with(|| format!("{} | {} bytes, every cut, {} | cfg {}", describe_doc(&d), len, mode, cfg.render()));
    let mut inside = 0u64;
    let (mut in_id, mut in_size, mut in_payload, mut at_boundary, mut after_master_header, mut last_empty) = (0u64, 0u64, 0u64, 0u64, 0u64, 0u64);
    with_spec!(d.spec, T => {
        for p in 0..=len {
            let prefix = &bytes[..p];
            let obs = match mode {
                0 => read_all::<T>(prefix, &cfg),
                1 => {
                    let steps = vec![RStep::Chunk(1); p];
                    read_from::<T, _>(ScriptRead::new(prefix, steps), &cfg, item_bound(p))
                }
                _ => {
                    // deterministic pseudo-random chunking derived from one tape word and the cut
                    let mut x = (chunk_seed as u32 ^ (p as u32).wrapping_mul(2654435761)) | 1;
                    let mut steps = Vec::new();
                    let mut left = p;
                    while left > 0 {
                        x ^= x << 13;
                        x ^= x >> 17;
                        x ^= x << 5;
                        let n = (1 + (x % 23) as usize).min(left);
                        steps.push(RStep::Chunk(n));
                        left -= n;
                    }
                    read_from::<T, _>(ScriptRead::new(prefix, steps), &cfg, item_bound(p))
                }
            };
            c.checks += 1;
            check_cut(&obs, &flat, &lay, &pos, &bytes, p).map_err(|m| {
                format!("{}\n  observed: {}\n  document ({} bytes): {}\n  cfg: {} source mode {}", m, render_obs(&obs), len, crate::model::hex(&bytes[..len.min(200)]), cfg.render(), mode)
            })?;
            // classify the cut
            if let Some(l) = lay.iter().find(|l| l.tag_start < p && if l.is_master { p < l.header_end } else { p < l.payload_end }) {
                inside += 1;
                if p < l.id_end {
                    in_id += 1;
                } else if p < l.header_end {
                    in_size += 1;
                } else {
                    in_payload += 1;
                }
            } else {
                at_boundary += 1;
                if lay.iter().any(|l| l.is_master && l.header_end == p) {
                    after_master_header += 1;
                }
            }
        }
        if let Some(l) = lay.last() {
            if !l.is_master && l.payload_end == l.header_end {
                last_empty += 1;
            }
        }
    });
    c.units = len as u64 + 1;
    // (document, cut) pairs; a document seen twice does not count twice (keyed by its bytes)
    c.nontrivial_units = inside;
    c.label_n("cut_in_id", in_id);
    c.label_n("cut_in_size", in_size);
    c.label_n("cut_in_payload", in_payload);
    c.label_n("cut_at_boundary", at_boundary);
    c.label_n("cut_after_master_header", after_master_header);
    c.label_n("last_element_empty", last_empty);
    c.label_n("cut_strictly_inside_element", inside);
    c.key(&bytes);
    Ok(())
}

/// the same oracle on a document with one payload larger than the 64 KiB default buffer: the cuts are sampled (every position would be
/// ~10^5 parses of ~10^5 bytes each) — around the element's start and end, around multiples of 64 KiB inside the payload, and at random
fn stage_big(i: &Input, c: &mut Case) -> Result<(), String> {
    let mut t = Tape::new(i.tape());
    crate::dynspec::set_current(crate::gen::rich());
    // one case in 40: two payloads beyond 4 MiB, the bigger one first (the buffer is then longer than the second element needs)
    let two_huge = t.chance(1, 40);
    let big_len = if two_huge { (5 << 20) + t.below(1 << 20) } else if t.chance(1, 12) { (1 << 20) + t.below(1 << 21) } else { 65_000 + t.below(80_000) };
    let blob = Node::leaf(0xa3, Payload::B(t.filler(big_len)));
    let bigger = if two_huge {
        let n = big_len + (1 << 20) + t.below(1 << 19);
        Some(Node::leaf(0xa3, Payload::B(t.filler(n))))
    } else {
        None
    };
    let small = |t: &mut Tape| {
        let n = 1 + t.below(40);
        Node::leaf(0xa3, Payload::B(t.filler(n)))
    };
    let mut group = vec![Node::leaf(0xe7, Payload::U(t.below(1000) as u64))];
    if t.chance(1, 2) {
        group.push(small(&mut t));
    }
    if let Some(b) = bigger {
        group.push(b);
        c.label("two_payloads_beyond_4MiB_bigger_first");
    }
    group.push(blob);
    if t.chance(1, 2) {
        group.push(Node::leaf(0xe7, Payload::U(7)));
    }
    let mut body = vec![Node::master(0x1f43b675, group)];
    if t.chance(1, 2) {
        body.push(Node::master(0x1f43b675, vec![small(&mut t)]));
    }
    let mut forest = vec![Node::master(0x1a45dfa3, vec![Node::leaf(0x4286, Payload::U(1))]), Node::master(0x18538067, body)];
    // some masters with unknown size, some size fields wider than needed
    if t.chance(1, 3) {
        forest[1].enc.unknown = true;
        forest[1].enc.size_w = 8;
    }
    if t.chance(1, 3) {
        if let Some(ch) = forest[1].children_mut() {
            ch[0].enc.size_w = 4 + t.below(5) as u8;
        }
    }
    fix_widths(&mut forest);
    let (bytes, lay) = ref_encode(&forest);
    let flat = flatten(&forest);
    let pos = flat_positions(&forest);
    let len = bytes.len();
    let big = lay.iter().find(|l| !l.is_master && l.payload_end - l.header_end == big_len).ok_or("harness: big element not found in the layout")?;
    let mut cuts: Vec<usize> = vec![big.tag_start, big.tag_start + 1, big.header_end, big.header_end + 1, big.payload_end - 1, big.payload_end, len - 1, len];
    for k in 1..=2usize {
        for d in [-2i64, -1, 0, 1, 2, 17] {
            let v = big.header_end as i64 + (k as i64) * 65536 + d;
            if v > big.header_end as i64 && (v as usize) < big.payload_end {
                cuts.push(v as usize);
            }
            let v2 = (k as i64) * 65536 + d;
            if v2 > 0 && (v2 as usize) < len {
                cuts.push(v2 as usize);
            }
        }
    }
    if big_len > 1 << 20 {
        for d in [-1i64, 0, 1, 2, 1000] {
            cuts.push((big.header_end as i64 + (1 << 20) + d) as usize);
        }
        cuts.push(big.payload_end - 2);
    }
    for _ in 0..6 {
        cuts.push(t.below(len + 1));
    }
    cuts.retain(|&p| p <= len);
    cuts.sort();
    cuts.dedup();
    let cap = match t.weighted(&[5, 3, 2]) {
        0 => None,
        1 => Some(*t.pick(&[16usize, 64, 4096])),
        _ => Some(70_000),
    };
    let chunk = *t.pick(&[0usize, 0, 4093, 65536, 100_000]);
    let cfg = ReadCfg { capacity: cap, ..ReadCfg::default() };
    c.label_if(cap.is_some(), "small_capacity");
    c.label_if(chunk > 0, "chunked_source");
    c.sample_with(|| format!("{} bytes with a {}-byte Blob at {}, {} sampled cuts, reads of {} | cfg {}", len, big_len, big.tag_start, cuts.len(), if chunk == 0 { "any size".to_string() } else { format!("{} bytes", chunk) }, cfg.render()));
    let mut inside_big = 0u64;
    for &p in &cuts {
        let prefix = &bytes[..p];
        let obs = if chunk == 0 {
            read_all::<crate::dynspec::RichSpec>(prefix, &cfg)
        } else {
            let steps: Vec<RStep> = (0..p.div_ceil(chunk)).map(|_| RStep::Chunk(chunk)).collect();
            read_from::<crate::dynspec::RichSpec, _>(ScriptRead::new(prefix, steps), &cfg, item_bound(p))
        };
        c.checks += 1;
        check_cut(&obs, &flat, &lay, &pos, &bytes, p).map_err(|m| {
            let m: String = m.chars().take(1500).collect();
            format!("{}\n  document of {} bytes with a {}-byte Blob at offset {}\n  cfg: {} reads of {}", m, len, big_len, big.tag_start, cfg.render(), chunk)
        })?;
        if p > big.header_end + 65536 && p < big.payload_end {
            inside_big += 1;
        }
    }
    c.units = cuts.len() as u64;
    c.nontrivial_units = inside_big;
    c.label_n("cut_beyond_64k_of_available_payload", inside_big);
    c.label_if(big_len > 1 << 20, "payload_beyond_1MiB");
    c.key(&(big_len, &cuts, cap, chunk));
    Ok(())
}

/// Cuts far into a stream: the synthesized stream of C03 (groups of a 4-byte stamp and a 4 MiB payload under one unknown-size master) ends
/// inside group 1 030, i.e. beyond 4 GiB — inside the payload, inside the group's header, between the payload element's id and size, inside
/// the stamp's payload, or at the group boundary.  Same expectation as everywhere in C12, computed from the generator's arithmetic.
fn stage_far(i: &Input, c: &mut Case) -> Result<(), String> {
    use super::c03::{FarSource, FAR_BLOB, FAR_HEAD, FAR_PERIOD};
    let mode = i.args()[0];
    let k = 1030u64;
    let base = FAR_HEAD + k * FAR_PERIOD;
    // (cut, items of group k that are complete, incomplete tag: (start, id if complete, size if header complete, available payload bytes))
    let (cut, complete, inc): (u64, usize, Option<(u64, Option<u64>, Option<usize>, usize)>) = match mode {
        0 => (base + 19 + (1 << 20) + 7, 2, Some((base + 14, Some(0xa3), Some(FAR_BLOB as usize), (1 << 20) + 7))),
        1 => (base + 2, 0, Some((base, None, None, 0))),
        2 => (base + 16, 2, Some((base + 14, Some(0xa3), None, 0))),
        3 => (base + 12, 1, Some((base + 8, Some(0xe7), Some(4), 2))),
        _ => (base, 0, None),
    };
    let src = FarSource { pos: 0, total: cut, max_read: usize::MAX };
    let mut rd = Rd::<crate::dynspec::RichSpec, FarSource>::new(src, &ReadCfg::default())?;
    let mut next_item = |what: String| -> Result<(Flat, usize), String> {
        match rd.next() {
            Step::Item(f, o) => Ok((f, o)),
            Step::Err(e) => Err(format!("{}: error {} although the element is complete", what, e.short())),
            Step::Done => Err(format!("{}: iteration ended", what)),
            Step::Panic(p) => Err(format!("{}: panic {}", what, p)),
        }
    };
    let want = |what: String, got: (Flat, usize), f: Flat, off: u64| -> Result<(), String> {
        if got.1 as u64 != off || got.0 != f {
            return Err(format!("{}: got {:?} at offset {}, the stream has {:?} at offset {}", what, got.0, got.1, f, off));
        }
        Ok(())
    };
    want("first item".into(), next_item("first item".into())?, Flat::Start(0x18538067), 0)?;
    for j in 0..=k {
        let b = FAR_HEAD + j * FAR_PERIOD;
        let n = if j < k { 4 } else { complete };
        for part in 0..n {
            let got = next_item(format!("group {} item {}", j, part))?;
            match part {
                0 => want(format!("group {}", j), got, Flat::Start(0x1f43b675), b)?,
                1 => want(format!("stamp of group {}", j), got, Flat::Leaf(0xe7, Payload::U(j)), b + 8)?,
                2 => {
                    let ok = matches!(&got.0, Flat::Leaf(0xa3, Payload::B(d)) if d.len() as u64 == FAR_BLOB) && got.1 as u64 == b + 14;
                    if !ok {
                        return Err(format!("blob of group {}: got {:?} at offset {}, expected 4 MiB at {}", j, got.0, got.1, b + 14));
                    }
                }
                _ => want(format!("end of group {}", j), got, Flat::End(0x1f43b675), b)?,
            }
            c.checks += 1;
        }
    }
    // what follows the complete tags
    let mut ends = Vec::new();
    let last = loop {
        match rd.next() {
            Step::Item(Flat::End(id), _) => ends.push(id),
            other => break other,
        }
    };
    match (inc, last) {
        (None, Step::Done) => {
            if ends != vec![0x18538067] {
                return Err(format!("cut {} is a tag boundary: closing Ends {:x?}, expected [18538067]", cut, ends));
            }
        }
        (None, other) => return Err(format!("cut {} is a tag boundary, but the iterator returned {}", cut, match other { Step::Item(f, o) => format!("{:?}@{}", f, o), Step::Err(e) => e.short(), Step::Panic(p) => p, Step::Done => unreachable!() })),
        (Some((start, id, size, avail)), Step::Err(ErrK::Eof { tag_start, tag_id, tag_size, partial })) => {
            let pl = partial.as_ref().map(|d| d.len()).unwrap_or(0);
            let zero = partial.as_ref().map(|d| d.iter().all(|x| *x == 0)).unwrap_or(true);
            if tag_start as u64 != start || tag_id != id || tag_size != size || pl != avail || !zero {
                return Err(format!(
                    "cut {}: UnexpectedEOF {{ tag_start: {}, tag_id: {:x?}, tag_size: {:?}, partial_data: {} bytes{} }}, the incomplete tag is {{ start {}, id {:x?}, size {:?}, {} payload bytes available }}",
                    cut, tag_start, tag_id, tag_size, pl, if zero { "" } else { " (not the stream's)" }, start, id, size, avail
                ));
            }
        }
        (Some(_), other) => {
            return Err(format!("cut {} inside an element of a valid stream: expected UnexpectedEOF, got {}", cut, match other { Step::Item(f, o) => format!("{:?}@{}", f, o), Step::Err(e) => e.short(), Step::Panic(p) => p, Step::Done => "None".into() }))
        }
    }
    c.units = 1;
    c.nontrivial_units = 1;
    c.label("cut_beyond_4GiB");
    c.sample_with(|| format!("synthesized stream cut at {} (group {} starts at {})", cut, k, base));
    Ok(())
}

pub const STAGES: &[Stage] = &[Stage { name: "every_cut", f: stage_doc }, Stage { name: "big_payload_cuts", f: stage_big }, Stage { name: "cuts_beyond_4GiB", f: stage_far }];

pub fn run(rc: &mut RunCtx) {
    rc.run_pt(STAGES[0], rc.pick(32_000, 200_000), (96, 400));
    rc.run_pt(STAGES[1], rc.pick(1_500, 12_000), (32, 64));
    rc.run_indexed(STAGES[2], 5, true, &|i| Input::Args(vec![i]));
    rc.require_label("big_payload_cuts", "cut_beyond_64k_of_available_payload", 3_000);
    rc.require_label("every_cut", "unknown_size", 50_000);
    rc.require_label("every_cut", "source_1byte_reads", 100_000);
    if !rc.quick() {
        rc.run_fuzz(Some(STAGES[0]), 250);
    }
}
