//! C10 — writer streams: flushed bytes are final, and complete when no sized master is open.

use crate::drive::*;
use crate::gen::*;
use crate::model::*;
use crate::props::common::*;
use crate::refmodel::*;
use crate::runner::*;
use crate::tape::Tape;
use crate::with_spec;

pub const RULE: &str = "model-based: valid writer call sequences (Start known-size with optional width | Start unknown-size | leaf | Full | End, cut at a random point and ended by flush()/into_inner()) generated from a conformant forest; a third of the sequences also contain calls that must be refused (C19's kinds), a third hand some leaves over through write_raw(); \
the model tracks the open stack with known/unknown flags and the tags accepted so far. After EVERY call on a recording destination D: D extends the previous D (never retracted or altered) and is a prefix of the final output; \
after a successful leaf / Full / End while the model has no known-size master open, the strict iterator over D yields exactly the accepted tags followed by the Ends of the still-open (unknown-size) masters innermost first; \
while a known-size master is open, len(D) <= the offset of the outermost such master's first byte in the final output; after flush()/into_inner() D parses to all tags with all Ends. Second stage: a master End refused because the content does not fit the requested width leaves the master open — whatever the following calls return, nothing of it may reach D. \
Non-trivial: both invariants were exercised by the sequence — the destination was parsed after a completed write while an unknown-size master was still open, and a known-size master was open at some point (or: an unknown-size master with >= 2 element writes inside it and later a known-size master); distinct by the op sequence.";

pub const ASSUMPTIONS: &[&str] = &[
    "failing calls are C19's business: every call here is valid by construction",
    "ambiguous shapes (global element right after an unknown-size master) are excluded by construction as in C01/C07",
];

fn stage(i: &Input, c: &mut Case) -> Result<(), String> {
    let mut t = Tape::new(i.tape());
    // one case in 40 may carry a payload beyond the 64 KiB mark: large elements are where writers take short cuts past their buffer
    let huge = t.chance(1, 40);
    let to = TreeOpts { max_nodes: if huge { 10 } else { 30 }, pay: PayOpts { big_left: if huge { 2 } else { 1 }, huge, max_small: 20 }, deep: t.chance(1, 2), ..TreeOpts::default() };
    let mut eo = EncOpts { widths: true, unknown: true, full: true, noncanonical: false };
    if t.chance(1, 8) {
        eo.unknown = false;
    }
    let mut d = gen_doc(&mut t, SpecOpts::default(), to, eo);
    if huge {
        let n = *t.pick(&[65_535usize, 65_536, 65_537, 70_000, 131_072, 1 << 20, (1 << 20) + 5]);
        enlarge_one_leaf(&mut t, &mut d.forest, n);
        fix_widths(&mut d.forest);
    }
    // unknown-size masters are what makes streaming observable: make roots unknown-size often
    if eo.unknown {
        for n in d.forest.iter_mut() {
            if n.is_master() && !d.spec.table().get(n.id).map(|e| e.is_global()).unwrap_or(true) && t.chance(3, 4) {
                n.enc.unknown = true;
                n.enc.size_w = 8;
                n.enc.full = false;
            }
        }
        let cl = sanitize_unknown(d.spec.table(), &mut d.forest, true);
        d.cleared.0 += cl.0;
        d.cleared.1 += cl.1;
        fix_widths(&mut d.forest);
    }
    note_cleared(c, &d);
    doc_labels(c, &d);
    c.label_if(huge && crate::gen::any_node(&d.forest, &|n| crate::gen::content_len(n) >= 65_535 && !n.is_master()), "payload_64KiB_or_more");
    let valid_ops = forest_ops(&d.forest);
    // "all sequences of writer calls" includes calls that are rejected: 1-2 contract-failing calls are mixed in for a third of
    // the sequences (they must return an error and are not part of the accepted tags)
    let mut all_ops: Vec<(WOp, bool)> = valid_ops.iter().cloned().map(|o| (o, false)).collect();
    if t.chance(1, 3) {
        let mut chains: Vec<Vec<u64>> = Vec::new();
        let mut open_ids: Vec<u64> = Vec::new();
        for op in &valid_ops {
            chains.push(open_ids.clone());
            match op {
                WOp::Write(Flat::Start(id), _) => open_ids.push(*id),
                WOp::Write(Flat::End(_), _) => {
                    open_ids.pop();
                }
                _ => {}
            }
        }
        chains.push(open_ids);
        let mut ins: Vec<(usize, WOp)> = Vec::new();
        for _ in 0..1 + t.below(2) {
            let at = t.below(valid_ops.len() + 1);
            if let Some((op, _)) = super::c19::gen_failing(&mut t, d.spec.table(), &chains[at]) {
                ins.push((at, op));
            }
        }
        ins.sort_by_key(|x| std::cmp::Reverse(x.0));
        for (at, op) in ins {
            all_ops.insert(at, (op, true));
            c.label("with_rejected_calls");
        }
    }
    let cut = if t.chance(1, 3) { all_ops.len() } else { t.below(all_ops.len() + 1) };
    let ops_f = &all_ops[..cut];
    let ops_vec: Vec<WOp> = ops_f.iter().map(|x| x.0.clone()).collect();
    let ops = &ops_vec[..];
    // what is actually handed to the writer: in a third of the sequences some default-option leaves go through
    // write_raw(id, payload bytes) instead of write() — one more call of "all sequences of writer calls"; the model keeps the leaf
    let mut applied: Vec<WOp> = ops_vec.clone();
    if t.chance(1, 3) {
        let mut n = 0;
        for (k, op) in applied.iter_mut().enumerate() {
            if !ops_f[k].1 {
                n += rawify_ops(&mut t, std::slice::from_mut(op), 1, 2, false);
            }
        }
        c.label_if(n > 0, "leaves_through_write_raw");
    }
    let applied = &applied[..];
    c.key(&(d.spec.table().elems.clone(), &format!("{:?}", applied)));
    c.sample_with(|| format!("spec {} | ops {} | then flush", spec_brief(d.spec.table()), render_ops(applied)));

    with_spec!(d.spec, T => {
        let mut w = Wr::<T>::new(RecDest::new());
        // model
        let mut open: Vec<(u64, bool)> = Vec::new(); // (id, known-size)
        let mut accepted: Vec<Flat> = Vec::new();
        let mut snapshots: Vec<Vec<u8>> = Vec::new();
        let mut known_open_marks: Vec<(usize, usize)> = Vec::new(); // (snapshot index, pre-order index of the outermost known-size master)
        let mut elem_index = 0usize; // pre-order index of the next element to be written
        let mut prev = Vec::new();
        let mut writes_in_unknown = 0;
        let mut pattern = false;
        let mut complete_inside_unknown = false;
        for (k, op) in ops.iter().enumerate() {
            let outer_known_before = open.iter().position(|o| o.1);
            if ops_f[k].1 {
                // a call that must be rejected: no effect on the model, the destination must not change
                match w.apply(op) {
                    Ok(()) => return Err(format!("call #{} {} must fail by contract but was accepted\n  ops: {}", k, op.short(), render_ops(ops))),
                    Err(WErr::Panic(p)) => return Err(format!("call #{} {} panicked: {}", k, op.short(), p)),
                    Err(_) => {}
                }
                if w.dest() != &prev[..] {
                    return Err(format!("the rejected call #{} {} changed what the destination holds\n  ops: {}", k, op.short(), render_ops(ops)));
                }
                snapshots.push(prev.clone());
                continue;
            }
            w.apply(&applied[k]).map_err(|e| format!("call #{} {} of a valid sequence failed: {:?}\n  ops: {}", k, applied[k].short(), e, render_ops(applied)))?;
            let dnow = w.dest().to_vec();
            if !dnow.starts_with(&prev) {
                return Err(format!("after call #{} {} the destination no longer starts with what it held before (bytes retracted or altered)\n  before: {}\n  after:  {}", k, op.short(), hex(&prev), hex(&dnow)));
            }
            let mut check_complete = false;
            match op {
                WOp::Write(Flat::Start(id), opt) => {
                    let known = !matches!(opt, WOpt::Unknown);
                    if known && !open.iter().any(|o| o.1) && writes_in_unknown >= 2 {
                        pattern = true;
                    }
                    open.push((*id, known));
                    accepted.push(Flat::Start(*id));
                    if known && outer_known_before.is_none() {
                        known_open_marks.push((snapshots.len(), elem_index));
                    }
                    elem_index += 1;
                }
                WOp::Write(Flat::End(id), _) => {
                    let top = open.pop();
                    if top.map(|x| x.0) != Some(*id) {
                        return Err(format!("harness: model stack mismatch at End of {:#x}", id));
                    }
                    accepted.push(Flat::End(*id));
                    check_complete = true;
                }
                WOp::Write(f @ Flat::Leaf(..), _) => {
                    accepted.push(f.clone());
                    elem_index += 1;
                    check_complete = true;
                    if !open.is_empty() && open.iter().all(|o| !o.1) {
                        writes_in_unknown += 1;
                    }
                }
                WOp::Write(f @ Flat::Full(..), _) => {
                    let un = unroll(std::slice::from_ref(f));
                    elem_index += un.iter().filter(|x| !x.is_end()).count();
                    accepted.extend(un);
                    check_complete = true;
                    if !open.is_empty() && open.iter().all(|o| !o.1) {
                        writes_in_unknown += 1;
                    }
                }
                _ => {}
            }
            let known_open = open.iter().any(|o| o.1);
            if known_open {
                if let Some(ix) = outer_known_before {
                    let _ = ix;
                }
                // remember how much had been handed over while a known-size master is open
                if let Some(m) = known_open_marks.last() {
                    known_open_marks.push((snapshots.len(), m.1));
                }
            }
            if check_complete && !known_open {
                let mut want = accepted.clone();
                for (id, _) in open.iter().rev() {
                    want.push(Flat::End(*id));
                }
                let obs = read_all::<T>(&dnow, &ReadCfg::strict());
                c.checks += 1;
                expect_exact(&obs, &want, "destination after a completed write with no known-size master open").map_err(|m| {
                    format!("after call #{} {}: {}\n  destination holds: {}\n  observed: {}\n  ops so far: {}", k, applied[k].short(), m, hex(&dnow[..dnow.len().min(200)]), render_obs(&obs), render_ops(&applied[..=k]))
                })?;
                c.label("complete_prefix_checked");
                if !open.is_empty() {
                    complete_inside_unknown = true;
                }
            }
            snapshots.push(dnow.clone());
            prev = dnow;
        }
        // flush: closes everything and delivers everything
        let use_into_inner = t.chance(1, 2);
        let fin = if use_into_inner {
            w.finish().map_err(|e| format!("into_inner() failed: {:?}", e))?
        } else {
            w.apply(&WOp::Flush).map_err(|e| format!("flush() failed: {:?}", e))?;
            w.dest().to_vec()
        };
        for (id, _) in open.iter().rev() {
            accepted.push(Flat::End(*id));
        }
        if !fin.starts_with(&prev) {
            return Err(format!("flush retracted or altered bytes already handed over\n  before: {}\n  after:  {}", hex(&prev), hex(&fin)));
        }
        for (k, s) in snapshots.iter().enumerate() {
            if !fin.starts_with(s) {
                return Err(format!("what the destination held after call #{} is not a prefix of the final output", k));
            }
        }
        let obs = read_all::<T>(&fin, &ReadCfg::strict());
        c.checks += 1;
        expect_exact(&obs, &accepted, "final output after flush()/into_inner()").map_err(|m| format!("{}\n  final: {}\n  ops: {}", m, hex(&fin[..fin.len().min(200)]), render_ops(ops)))?;
        // nothing of an open known-size master is handed over: compare with its position in the final output
        if !known_open_marks.is_empty() {
            let walk = super::c09::walk(d.spec.table(), &fin)?;
            // offsets of each element in the final output (linear walk order == pre-order)
            let mut offs = Vec::with_capacity(walk.len());
            let mut o = 0usize;
            for (id, size_len, pay) in &walk {
                offs.push(o);
                o += id_bytes(*id).len() + size_len + pay.as_ref().map(|p| p.len()).unwrap_or(0);
            }
            for (snap, elem) in &known_open_marks {
                if let (Some(s), Some(off)) = (snapshots.get(*snap), offs.get(*elem)) {
                    c.checks += 1;
                    if s.len() > *off {
                        return Err(format!(
                            "while a known-size master (element #{} at offset {} of the final output) was open, the destination already held {} bytes, i.e. part of it\n  ops: {}",
                            elem, off, s.len(), render_ops(ops)
                        ));
                    }
                }
            }
            c.label("known_open_checked");
        }
        c.nontrivial = pattern || (complete_inside_unknown && !known_open_marks.is_empty());
        c.label_if(complete_inside_unknown, "complete_prefix_checked_inside_open_unknown_size_master");
        c.label_if(pattern, "unknown_then_writes_then_known");
        c.label_if(use_into_inner, "into_inner");
        c.label_if(cut < all_ops.len(), "flush_with_open_masters");
        Ok(())
    })
}

// a master End refused because the content does not fit the requested width: the master stays open, so nothing of it may be
// handed over — before, at or after the refused call (the scenario is built by C19's generator; only the destination is judged here)
pub const STAGES: &[Stage] = &[Stage { name: "streaming", f: stage }, Stage { name: "refused_end_keeps_content_back", f: super::c19::stage_failed_end_streaming }];

pub fn run(rc: &mut RunCtx) {
    rc.run_pt(STAGES[0], rc.pick(320_000, 1_500_000), (96, 640));
    rc.run_pt(STAGES[1], rc.pick(80_000, 400_000), (96, 500));
    for l in ["complete_prefix_checked", "known_open_checked", "unknown_then_writes_then_known", "flush_with_open_masters", "with_rejected_calls", "leaves_through_write_raw"] {
        rc.require_label("streaming", l, 20_000);
    }
    if !rc.quick() {
        rc.run_fuzz(Some(STAGES[0]), 320);
    }
}
