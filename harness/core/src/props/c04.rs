//! C04 — parse result is independent of read chunking, buffer capacity and EOF pauses.

use crate::drive::*;
use crate::gen::*;
use crate::model::*;
use crate::mutate::*;
use crate::props::common::*;
use crate::refmodel::ref_encode;
use crate::runner::*;
use crate::tape::Tape;
use crate::with_spec;

pub const RULE: &str = "metamorphic: the full observation sequence (items, offsets, first error with all fields) under a scripted source must equal that of reading the same bytes from one slice with the default capacity. \
Exhaustive part: small documents (valid, truncated at every position class, one corrupted byte; length <= 12 quick / <= 15 thorough) × EVERY composition of the length into read sizes (2^(len-1)) × capacities {0,1,2,7,8,15,16,17,len-1,len,len+1,default}. \
Random part: the reader mix (valid/mutated/random/adversarial/mid-document) × random compositions (1-byte reads, 1-3, 1-17, large) × capacities 0..=64, len±1, default × tolerance subsets × buffered subsets; \
pause part: end-of-stream closing disabled, the source answers Ok(0) once at a chosen subset of tag boundaries and the driver keeps calling next() after None while data remains: result equals the un-paused run, \
and the run without closing is the run with closing minus trailing Ends. A fourth stage repeats the pause part on documents in which one payload has 64 KiB - 200 KB (the buffer has outgrown its default length when the pauses come). Each (input, schedule, capacity) is one evaluation. Non-trivial: some read boundary falls strictly inside an element (header or payload) or capacity < input length; distinct by (input, schedule, capacity).";

pub const ASSUMPTIONS: &[&str] = &[
    "the slice parse itself is anchored to ground truth by C03/C06/C12, so 'everything is equally wrong' cannot hide here",
    "temporary Ok(0) is only injected where everything delivered so far ends at a tag boundary (what the documentation of emit_master_end_when_eof describes)",
];

const CAPS: [Option<usize>; 9] = [None, Some(0), Some(1), Some(2), Some(7), Some(8), Some(15), Some(16), Some(17)];

pub fn small_doc(seed: u64, k: u64, max_len: usize) -> (SpecChoice, Vec<u8>, String) {
    // deterministic small inputs: tape from the proptest RNG seeded by (seed, k); regenerate with j until short enough
    let mut j = 0u64;
    loop {
        let tape = sample_tape(seed.wrapping_mul(1_000_003).wrapping_add(k * 64 + j), 160);
        let mut t = Tape::new(&tape);
        let spec = gen_spec_choice(&mut t, SpecOpts { max_elems: 8, ..SpecOpts::default() });
        let to = TreeOpts { max_nodes: 4, max_children: 2, max_roots: 1, pay: PayOpts { big_left: 0, huge: false, max_small: 2 }, ..TreeOpts::default() };
        let mut forest = gen_forest(&mut t, spec.table(), to);
        assign_enc(&mut t, &mut forest, EncOpts { widths: false, unknown: true, full: false, noncanonical: true });
        sanitize_unknown(spec.table(), &mut forest, false);
        fix_widths(&mut forest);
        let (mut bytes, _) = ref_encode(&forest);
        let variant = k % 3;
        if bytes.len() >= 3 && bytes.len() <= max_len {
            let desc;
            match variant {
                1 => {
                    let cut = 1 + t.below(bytes.len() - 1);
                    bytes.truncate(cut);
                    desc = format!("truncated@{}", cut);
                }
                2 => {
                    let i = t.below(bytes.len());
                    bytes[i] ^= 1 << t.below(8);
                    desc = format!("bitflip@{}", i);
                }
                _ => desc = "valid".to_string(),
            }
            let d = format!("{} {} doc {} bytes {}", desc, if spec.is_rich() { "RichSpec" } else { "generated spec" }, render_forest(&forest), hex(&bytes));
            return (spec, bytes, d);
        }
        j += 1;
    }
}

fn steps_from_mask(len: usize, mask: u64) -> Vec<RStep> {
    // bit i set = a read boundary after byte i (0-based, i < len-1)
    let mut v = Vec::new();
    let mut run = 0;
    for i in 0..len {
        run += 1;
        if i + 1 == len || (mask >> i) & 1 == 1 {
            v.push(RStep::Chunk(run));
            run = 0;
        }
    }
    v
}

fn stage_exhaustive(i: &Input, c: &mut Case) -> Result<(), String> {
    let a = i.args();
    let (seed, k, max_len) = (a[0], a[1], a[2] as usize);
    let (spec, bytes, desc) = small_doc(seed, k, max_len);
    let len = bytes.len();
    let mut caps: Vec<Option<usize>> = CAPS.to_vec();
    caps.extend_from_slice(&[Some(len.saturating_sub(1)), Some(len), Some(len + 1)]);
    let tol = (k / 3 % 4) as u8 * 2 % 8; // 0,2,4,6 by document
    let mut units = 0u64;
    with_spec!(spec, T => {
        let base = read_all::<T>(&bytes, &ReadCfg { tolerate: tol, ..ReadCfg::default() });
        // element-internal positions: a boundary strictly inside an element = not a reported tag start
        for cap in &caps {
            let cfg = ReadCfg { tolerate: tol, capacity: *cap, ..ReadCfg::default() };
            for mask in 0..(1u64 << (len - 1)) {
                let steps = steps_from_mask(len, mask);
                let obs = read_from::<T, _>(ScriptRead::new(&bytes, steps), &cfg, item_bound(len));
                units += 1;
                if obs != base {
                    return Err(format!(
                        "result depends on the read schedule / capacity:\n  input: {}\n  reads: {:?} capacity {:?} tolerate {:03b}\n  got:      {}\n  as slice: {}",
                        desc, steps_from_mask(len, mask), cap, tol, render_obs(&obs), render_obs(&base)
                    ));
                }
            }
        }
    });
    c.units = units;
    // every composition except the single-read one splits somewhere; all but few split inside an element
    c.nontrivial_units = units - caps.len() as u64;
    c.checks = units;
    c.label(match k % 3 { 0 => "small_valid", 1 => "small_truncated", _ => "small_corrupted" });
    c.sample_with(|| format!("{} × all {} compositions × {} capacities", desc, 1u64 << (len - 1), caps.len()));
    Ok(())
}

fn split_inside_element(boundaries: &[usize], steps: &[RStep], len: usize) -> bool {
    let mut pos = 0usize;
    for s in steps {
        if let RStep::Chunk(n) = s {
            pos += n;
            if pos < len && !boundaries.contains(&pos) {
                return true;
            }
        }
    }
    false
}

pub fn tag_boundaries(obs: &[Obs], len: usize) -> Vec<usize> {
    let mut v: Vec<usize> = obs
        .iter()
        .filter_map(|o| match o {
            Obs::Item(f, off) if !f.is_end() => Some(*off),
            _ => None,
        })
        .collect();
    if first_err(obs).is_none() {
        v.push(len);
    }
    v.sort();
    v.dedup();
    v
}

/// a source script that delivers up to some of the given tag boundaries in small pieces and then reports a temporary end of file
pub fn gen_pause_script(t: &mut Tape, bounds: &[usize]) -> (Vec<RStep>, usize) {
    let mut steps = Vec::new();
    let mut pos = 0usize;
    let mut pauses = 0;
    for &bd in bounds {
        if bd > pos && t.chance(1, 2) {
            let mut left = bd - pos;
            while left > 0 {
                let n = (1 + t.below(9)).min(left);
                steps.push(RStep::Chunk(n));
                left -= n;
            }
            steps.push(RStep::Pause);
            if t.chance(1, 4) {
                steps.push(RStep::Pause);
            }
            pauses += 1;
            pos = bd;
        }
    }
    (steps, pauses)
}

/// read through a scripted source, calling next() again after None for as long as the source still holds data or script steps
pub fn read_paused<T: crate::dynspec::Spec>(bytes: &[u8], steps: Vec<RStep>, cfg: &ReadCfg) -> Result<(Vec<Obs>, usize), String> {
    let mut src = ScriptRead::new(bytes, steps);
    let mut rd = match Rd::<T, _>::new(&mut src, cfg) {
        Ok(r) => r,
        Err(p) => return Err(format!("constructor panicked: {}", p)),
    };
    let mut obs: Vec<Obs> = Vec::new();
    let mut nones = 0;
    let mut calls = 0;
    loop {
        calls += 1;
        if calls > 8 * item_bound(bytes.len()) {
            obs.push(Obs::Runaway(calls));
            break;
        }
        match rd.next() {
            Step::Item(f, o) => obs.push(Obs::Item(f, o)),
            Step::Err(e) => {
                obs.push(Obs::Err(e));
                break;
            }
            Step::Panic(p) => {
                obs.push(Obs::Panic(p));
                break;
            }
            Step::Done => {
                nones += 1;
                let s = rd.it.get_ref();
                if s.all_delivered() && s.script_done() {
                    break;
                }
            }
        }
    }
    Ok((obs, nones))
}

fn stage_random(i: &Input, c: &mut Case) -> Result<(), String> {
    let mut t = Tape::new(i.tape());
    let m = gen_mixed(&mut t, MixOpts::default());
    let len = m.bytes.len();
    let tolerate = if t.chance(1, 2) { 0 } else { t.below(8) as u8 };
    let masters = m.spec.table().masters();
    let mut buffered = Vec::new();
    if !masters.is_empty() && t.chance(1, 3) {
        for _ in 0..1 + t.below(3) {
            let id = masters[t.below(masters.len())];
            if !buffered.contains(&id) {
                buffered.push(id);
            }
        }
    }
    let capacity = match t.weighted(&[3, 4, 3, 2]) {
        0 => None,
        1 => Some(t.below(20)),
        2 => Some(*t.pick(&[24usize, 32, 33, 64])),
        _ => Some(match t.below(3) { 0 => len.saturating_sub(1), 1 => len, _ => len + 1 }),
    };
    let (max_size, _) = safe_max_size(&m.bytes, MaxSize::Untouched);
    let steps = gen_chunks(&mut t, len);
    let base_cfg = ReadCfg { tolerate, buffered: buffered.clone(), max_size: max_size.clone(), ..ReadCfg::default() };
    let cfg = ReadCfg { capacity, ..base_cfg.clone() };
    c.label(m.origin.label());
    c.label_if(capacity.map(|x| x < 16).unwrap_or(false), "capacity_below_16");
    c.label_if(capacity == Some(0), "capacity_0");
    c.label_if(!buffered.is_empty(), "buffered_set");
    c.key(&(&m.bytes, &format!("{:?}", steps), capacity, tolerate, &buffered));
    c.sample_with(|| format!("{} | reads {:?} | cfg {}", describe_mixed(&m), &steps[..steps.len().min(24)], cfg.render()));
    with_spec!(m.spec, T => {
        let base = read_all::<T>(&m.bytes, &base_cfg);
        let obs = read_from::<T, _>(ScriptRead::new(&m.bytes, steps.clone()), &cfg, item_bound(len));
        c.checks += 1;
        let b = tag_boundaries(&base, len);
        c.nontrivial = split_inside_element(&b, &steps, len) || capacity.map(|x| x < len).unwrap_or(false);
        if obs != base {
            return Err(format!(
                "result depends on the read schedule / capacity:\n  input: {}\n  reads: {:?}\n  cfg: {}\n  got:      {}\n  as slice: {}",
                describe_mixed(&m), &steps[..steps.len().min(64)], cfg.render(), render_obs(&obs), render_obs(&base)
            ));
        }
        Ok(())
    })
}

fn stage_pause(i: &Input, c: &mut Case) -> Result<(), String> {
    let mut t = Tape::new(i.tape());
    let m = gen_mixed(&mut t, MixOpts { weights: [4, 4, 4, 0, 1, 2], ..MixOpts::default() });
    pauses(t, m, c)
}

/// the same relation on documents in which one payload has 64 KiB .. 200 KB (the buffer then outgrows its default length before the pauses)
fn stage_pause_big(i: &Input, c: &mut Case) -> Result<(), String> {
    let mut t = Tape::new(i.tape());
    let mut m = gen_mixed(&mut t, MixOpts { weights: [4, 4, 0, 0, 0, 0], ..MixOpts::default() });
    let n = *t.pick(&[65_536usize, 65_537, 70_000, 131_072, 200_000]);
    if crate::gen::enlarge_one_leaf(&mut t, &mut m.forest, n) {
        crate::gen::fix_widths(&mut m.forest);
        m.bytes = crate::refmodel::ref_encode(&m.forest).0;
        c.label("payload_of_64KiB_or_more_before_the_pauses");
    }
    pauses(t, m, c)
}

fn pauses(mut t: Tape, m: MixedInput, c: &mut Case) -> Result<(), String> {
    let len = m.bytes.len();
    let tolerate = if t.chance(2, 3) { 0 } else { t.below(8) as u8 };
    let capacity = match t.weighted(&[3, 3, 2]) {
        0 => None,
        1 => Some(t.below(20)),
        _ => Some(*t.pick(&[24usize, 33, 64])),
    };
    let (max_size, _) = safe_max_size(&m.bytes, MaxSize::Untouched);
    // buffered (Full) masters must survive a temporary end-of-file inside them as well
    let masters = m.spec.table().masters();
    let mut buffered = Vec::new();
    if !masters.is_empty() && t.chance(1, 3) {
        for _ in 0..1 + t.below(3) {
            let id = masters[t.below(masters.len())];
            if !buffered.contains(&id) {
                buffered.push(id);
            }
        }
    }
    c.label_if(!buffered.is_empty(), "buffered_set");
    let closing = ReadCfg { tolerate, buffered, max_size: max_size.clone(), ..ReadCfg::default() };
    let open = ReadCfg { eof_close: false, ..closing.clone() };
    let cfg = ReadCfg { capacity, ..open.clone() };
    c.label(m.origin.label());
    with_spec!(m.spec, T => {
        let no_close = read_all::<T>(&m.bytes, &open);
        // (1) disabling end-of-stream closing only removes trailing Ends (stated for the flat stream: a buffered master that
        //     never gets its End cannot be emitted as a Full item at all, so this part runs without buffering)
        let with_close = read_all::<T>(&m.bytes, &ReadCfg { buffered: vec![], ..closing.clone() });
        let flat_no_close = read_all::<T>(&m.bytes, &ReadCfg { buffered: vec![], ..open.clone() });
        let a = items_of(&with_close);
        let b = items_of(&flat_no_close);
        let ok = b.len() <= a.len() && a[..b.len()] == b[..] && a[b.len()..].iter().all(|x| x.is_end())
            && first_err(&with_close).map(|e| e.short()) == first_err(&flat_no_close).map(|e| e.short());
        if !ok {
            return Err(format!(
                "disabling end-of-stream closing changed more than the trailing Ends:\n  input: {}\n  closing:    {}\n  no closing: {}",
                describe_mixed(&m), render_obs(&with_close), render_obs(&flat_no_close)
            ));
        }
        c.label_if(b.len() < a.len(), "closing_suppressed_some_ends");
        // (2) pauses at tag boundaries
        let bounds = tag_boundaries(&flat_no_close, len);
        let mut steps = Vec::new();
        let mut pos = 0usize;
        let mut pauses = 0;
        for &bd in &bounds {
            if bd > pos && t.chance(1, 2) {
                // deliver up to the boundary in random pieces, then pause
                let mut left = bd - pos;
                while left > 0 {
                    let n = (if left > 4096 { 1 + t.below(20_000) } else { 1 + t.below(9) }).min(left);
                    steps.push(RStep::Chunk(n));
                    left -= n;
                }
                steps.push(RStep::Pause);
                if t.chance(1, 4) {
                    steps.push(RStep::Pause);
                }
                pauses += 1;
                pos = bd;
            }
        }
        c.label_if(pauses > 0, "has_pause");
        c.label_if(pauses > 1, "several_pauses");
        c.nontrivial = pauses > 0;
        c.key(&(&m.bytes, &format!("{:?}", steps), capacity, tolerate, &open.buffered));
        c.sample_with(|| format!("{} | script {:?} | cfg {}", describe_mixed(&m), &steps[..steps.len().min(30)], cfg.render()));
        // driver: keep calling next() after None while the source still holds data or script steps
        let mut src = ScriptRead::new(&m.bytes, steps.clone());
        let mut rd = match Rd::<T, _>::new(&mut src, &cfg) {
            Ok(r) => r,
            Err(p) => return Err(format!("constructor panicked: {}", p)),
        };
        let mut obs: Vec<Obs> = Vec::new();
        let mut nones = 0;
        let mut calls = 0;
        loop {
            calls += 1;
            if calls > 8 * item_bound(len) {
                obs.push(Obs::Runaway(calls));
                break;
            }
            match rd.next() {
                Step::Item(f, o) => obs.push(Obs::Item(f, o)),
                Step::Err(e) => {
                    obs.push(Obs::Err(e));
                    break;
                }
                Step::Panic(p) => {
                    obs.push(Obs::Panic(p));
                    break;
                }
                Step::Done => {
                    nones += 1;
                    let s = rd.it.get_ref();
                    if s.all_delivered() && s.script_done() {
                        break;
                    }
                }
            }
        }
        c.label_if(nones > 1, "none_then_more_items");
        c.checks += 1;
        if obs != no_close {
            return Err(format!(
                "temporary end-of-file at tag boundaries changed the result:\n  input: {}\n  script: {:?}\n  cfg: {}\n  got:       {}\n  un-paused: {}",
                describe_mixed(&m), &steps[..steps.len().min(64)], cfg.render(), render_obs(&obs), render_obs(&no_close)
            ));
        }
        Ok(())
    })
}

pub const STAGES: &[Stage] = &[
    Stage { name: "all_compositions", f: stage_exhaustive },
    Stage { name: "random_schedules", f: stage_random },
    Stage { name: "eof_pauses", f: stage_pause },
    Stage { name: "eof_pauses_after_big_payload", f: stage_pause_big },
];

pub fn run(rc: &mut RunCtx) {
    let seed = rc.seed;
    let (docs, max_len) = rc.pick((90u64, 13u64), (300u64, 16u64));
    rc.run_indexed(STAGES[0], docs, false, &|k| Input::Args(vec![seed, k, max_len]));
    rc.run_pt(STAGES[1], rc.pick(640_000, 3_000_000), (96, 600));
    rc.run_pt(STAGES[2], rc.pick(320_000, 1_500_000), (96, 600));
    rc.run_pt(STAGES[3], rc.pick(3_000, 20_000), (96, 600));
    rc.require_label("random_schedules", "capacity_below_16", 50_000);
    rc.require_label("eof_pauses", "has_pause", 300_000);
    rc.require_label("eof_pauses", "none_then_more_items", 50_000);
    rc.require_label("eof_pauses", "buffered_set", 100_000);
    if !rc.quick() {
        rc.run_fuzz(Some(STAGES[1]), 350);
    }
}
