//! C18 — derived specifications mean what was declared and are internally consistent.

use std::collections::BTreeMap;

use ebv_derivelib::{expand_attribute, expand_easy, interpret, Interp, Outcome};

use crate::gen::*;
use crate::model::*;
use crate::runner::*;
use crate::runner::sample_tape;
use crate::tape::Tape;

pub const RULE: &str = "the macro is a compiler, the domain is declarations. In-process engine (the macro's own source files compiled into the harness): random declarations — 3..24 variants, all six data types, ids of 1-8 bytes written in hex or decimal, \
paths along a random master forest with trailing / intermediate / stand-alone placeholders, the three attributes of a variant in any of their six orders, the variants in declaration or shuffled order (a child may come before its parent) — rendered in both syntaxes; both front ends must succeed and emit token-identical code; the generated tokens are parsed back with syn and interpreted \
(enum variants and field types, id→type, id→path, id→constructor per type, variant→id, variant→accessor, raw-tag arms) and compared with the declaration ∪ {Crc32 0xBF Binary (1-), Void 0xEC Binary (-), RawTag}. \
Broken declarations are derived from a valid one by one systematic edit (duplicate id incl. the built-ins, unknown variant in a path, non-master parent of a leaf or of a master, path that does not extend the parent's path in three ways, (x-0) placeholder, adjacent placeholders, \
missing #[id] / #[data_type], unknown data type, an element naming itself as its parent) and must be rejected (Err or panic of the macro body). Compiled engine: a batch of declarations goes through the real proc-macros with rustc; a generic driver checks every trait function for declared and probe ids and a write→read round trip. \
One valid declaration in eight carries the ids 1..n plus a leaf whose path replaces the last two parents A/B of an existing grandchild by the placeholder (id(A)-id(B)). One valid declaration in six names the direct parent twice in a path (A/(-)/B/(-)/B). Non-trivial: >= 4 distinct types, depth >= 3 and >= 1 placeholder (valid), any broken declaration; distinct by declaration text.";

pub const ASSUMPTIONS: &[&str] = &[
    "spans, generics and visibility variants are not checked",
    "an unknown attribute left on a variant is rejected by rustc, not by the macro: checked only in the compiled engine",
];

#[derive(Clone, Debug, PartialEq, Eq, Hash)]
pub enum PP {
    Name(String),
    Global(Option<u64>, Option<u64>),
}

#[derive(Clone, Debug, PartialEq, Eq, Hash)]
pub struct Var {
    pub name: String,
    pub id: u64,
    pub ty: Ty,
    pub path: Vec<PP>,
    /// raw override of the data type text (broken declarations)
    pub ty_text: Option<String>,
    pub omit_id: bool,
    pub omit_type: bool,
    pub extra_attr: Option<String>,
    /// attribute front end only: which of the 6 orders of #[id] #[data_type] #[doc_path] the variant carries (0 = that one)
    pub attr_order: u8,
}

#[derive(Clone, Debug, PartialEq, Eq, Hash)]
pub struct Decl {
    pub name: String,
    pub vars: Vec<Var>,
    pub hex_ids: bool,
}

pub fn decl_from_spec(spec: &SpecTable, name: &str, hex_ids: bool) -> Decl {
    let vname = |id: u64| -> String {
        let i = spec.by_id[&id];
        format!("V{}", i)
    };
    let vars = spec
        .elems
        .iter()
        .filter(|e| e.id != 0xEC && e.id != 0xBF)
        .map(|e| Var {
            name: vname(e.id),
            id: e.id,
            ty: e.ty,
            path: e
                .path
                .iter()
                .map(|p| match p {
                    PathPart::Id(x) => PP::Name(vname(*x)),
                    PathPart::Global((a, b)) => PP::Global(*a, *b),
                })
                .collect(),
            ty_text: None,
            omit_id: false,
            omit_type: false,
            extra_attr: None,
            attr_order: 0,
        })
        .collect();
    Decl { name: name.to_string(), vars, hex_ids }
}

pub fn render_pp(p: &[PP]) -> String {
    p.iter()
        .map(|x| match x {
            PP::Name(n) => n.clone(),
            PP::Global(a, b) => format!("({}-{})", a.map(|v| v.to_string()).unwrap_or_default(), b.map(|v| v.to_string()).unwrap_or_default()),
        })
        .collect::<Vec<_>>()
        .join("/")
}

fn lit(d: &Decl, id: u64) -> String {
    if d.hex_ids {
        format!("{:#x}", id)
    } else {
        format!("{}", id)
    }
}

pub fn render_attr(d: &Decl) -> String {
    let mut s = format!("#[derive(Clone, Debug, PartialEq)]\npub enum {} {{\n", d.name);
    for v in &d.vars {
        let id_attr = if !v.omit_id { format!("    #[id({})]\n", lit(d, v.id)) } else { String::new() };
        let ty_attr = if !v.omit_type { format!("    #[data_type(TagDataType::{})]\n", v.ty_text.clone().unwrap_or(v.ty.name().to_string())) } else { String::new() };
        let path_attr = if !v.path.is_empty() { format!("    #[doc_path({})]\n", render_pp(&v.path)) } else { String::new() };
        const ORDERS: [[usize; 3]; 6] = [[0, 1, 2], [0, 2, 1], [1, 0, 2], [1, 2, 0], [2, 0, 1], [2, 1, 0]];
        let parts = [id_attr, ty_attr, path_attr];
        for k in ORDERS[(v.attr_order % 6) as usize] {
            s.push_str(&parts[k]);
        }
        if let Some(a) = &v.extra_attr {
            s.push_str(&format!("    #[{}]\n", a));
        }
        s.push_str(&format!("    {},\n", v.name));
    }
    s.push_str("}\n");
    s
}

pub fn render_easy(d: &Decl) -> String {
    let mut s = format!("#[derive(Clone, Debug, PartialEq)]\npub enum {} {{\n", d.name);
    for v in &d.vars {
        let mut p = v.path.clone();
        p.push(PP::Name(v.name.clone()));
        s.push_str(&format!("    {} : {} = {},\n", render_pp(&p), v.ty_text.clone().unwrap_or(v.ty.name().to_string()), lit(d, v.id)));
    }
    s.push_str("}\n");
    s
}

fn field_of(ty: Ty, enum_name: &str) -> String {
    match ty {
        Ty::Master => format!("(ebml_iterable::specs::Master<{}>)", enum_name),
        Ty::U => "(u64)".into(),
        Ty::I => "(i64)".into(),
        Ty::S => "(String)".into(),
        Ty::B => "(::std::vec::Vec<u8>)".into(),
        Ty::F => "(f64)".into(),
    }
}

fn parse_id_pat(p: &str) -> Option<u64> {
    p.strip_suffix("u64").and_then(|x| x.parse::<u64>().ok())
}

fn split_top(s: &str) -> Vec<String> {
    let mut out = Vec::new();
    let mut depth = 0;
    let mut cur = String::new();
    for ch in s.chars() {
        match ch {
            '(' | '[' | '<' => {
                depth += 1;
                cur.push(ch);
            }
            ')' | ']' | '>' => {
                depth -= 1;
                cur.push(ch);
            }
            ',' if depth == 0 => {
                out.push(std::mem::take(&mut cur));
            }
            _ => cur.push(ch),
        }
    }
    if !cur.is_empty() {
        out.push(cur);
    }
    out
}

fn parse_opt(s: &str) -> Result<Option<u64>, String> {
    if s == "None" {
        return Ok(None);
    }
    s.strip_prefix("Some(").and_then(|x| x.strip_suffix(")")).and_then(parse_id_pat).map(Some).ok_or(format!("bad bound {}", s))
}

fn parse_path_body(b: &str) -> Result<Vec<PathPart>, String> {
    let inner = b.strip_prefix("&[").and_then(|x| x.strip_suffix("]")).ok_or(format!("path body {} is not a slice literal", b))?;
    let mut out = Vec::new();
    for part in split_top(inner) {
        if let Some(k) = part.find("PathPart::Id(") {
            let x = &part[k + "PathPart::Id(".len()..];
            let x = x.strip_suffix(")").ok_or("bad Id part")?;
            out.push(PathPart::Id(parse_id_pat(x).ok_or(format!("bad id literal {}", x))?));
        } else if let Some(k) = part.find("PathPart::Global((") {
            let x = &part[k + "PathPart::Global((".len()..];
            let x = x.strip_suffix("))").ok_or("bad Global part")?;
            let ab = split_top(x);
            if ab.len() != 2 {
                return Err(format!("bad Global bounds {}", x));
            }
            out.push(PathPart::Global((parse_opt(&ab[0])?, parse_opt(&ab[1])?)));
        } else {
            return Err(format!("unknown path part {}", part));
        }
    }
    Ok(out)
}

/// the declaration as the table the generated code must implement (built-ins included)
pub fn expected_table(d: &Decl) -> Vec<(String, u64, Ty, Vec<PathPart>)> {
    let ids: BTreeMap<&str, u64> = d.vars.iter().map(|v| (v.name.as_str(), v.id)).collect();
    let mut t: Vec<(String, u64, Ty, Vec<PathPart>)> = d
        .vars
        .iter()
        .map(|v| {
            (
                v.name.clone(),
                v.id,
                v.ty,
                v.path
                    .iter()
                    .map(|p| match p {
                        PP::Name(n) => PathPart::Id(ids[n.as_str()]),
                        PP::Global(a, b) => PathPart::Global((*a, *b)),
                    })
                    .collect(),
            )
        })
        .collect();
    t.push(("Crc32".into(), 0xbf, Ty::B, vec![PathPart::Global((Some(1), None))]));
    t.push(("Void".into(), 0xec, Ty::B, vec![PathPart::Global((None, None))]));
    t
}

pub fn check_meaning(d: &Decl, it: &Interp) -> Result<u64, String> {
    let mut checks = 0u64;
    let table = expected_table(d);
    let en = &d.name;
    if it.enum_name != *en {
        return Err(format!("generated enum is called {}", it.enum_name));
    }
    // variants and field types, in order, plus RawTag
    let mut want_vars: Vec<(String, String)> = table.iter().map(|(n, _, ty, _)| (n.clone(), field_of(*ty, en))).collect();
    want_vars.push(("RawTag".into(), "(u64,::std::vec::Vec<u8>)".into()));
    if it.variants != want_vars {
        return Err(format!("enum variants / field types differ:\n  generated {:?}\n  expected  {:?}", it.variants, want_vars));
    }
    checks += want_vars.len() as u64;
    if !it.enum_attrs.iter().any(|a| a.contains("derive(Clone,Debug,PartialEq)")) {
        return Err(format!("the user's derive attribute was not preserved: {:?}", it.enum_attrs));
    }
    let arms = |f: &str| -> Result<&Vec<(String, String)>, String> { it.fns.get(f).ok_or(format!("fn {} was not generated", f)) };
    let id_arms = |f: &str| -> Result<(BTreeMap<u64, String>, String), String> {
        let a = arms(f)?;
        if a.first().map(|x| (x.0.as_str(), x.1.as_str())) != Some(("<scrutinee>", "id")) {
            return Err(format!("fn {} does not match on `id`", f));
        }
        let mut m = BTreeMap::new();
        let mut default = None;
        for (p, b) in &a[1..] {
            if p == "_" {
                default = Some(b.clone());
            } else {
                // `1u64 | 2u64 => x` is as good as two arms
                for part in p.split('|') {
                    let part = part.trim();
                    let id = parse_id_pat(part).ok_or(format!("fn {}: pattern {} is not an id literal", f, p))?;
                    if m.insert(id, b.clone()).is_some() {
                        return Err(format!("fn {}: two arms for id {:#x}", f, id));
                    }
                }
            }
        }
        Ok((m, default.ok_or(format!("fn {}: no default arm", f))?))
    };
    // id -> type
    let (m, def) = id_arms("get_tag_data_type")?;
    if def != "None" {
        return Err(format!("get_tag_data_type default arm is {}", def));
    }
    if m.len() != table.len() {
        return Err(format!("get_tag_data_type has {} arms for {} elements", m.len(), table.len()));
    }
    for (n, id, ty, _) in &table {
        let b = m.get(id).ok_or(format!("get_tag_data_type has no arm for {} ({:#x})", n, id))?;
        let want_suffix = format!("TagDataType::{})", ty.name());
        if !(b.starts_with("Some(") && b.ends_with(&want_suffix)) {
            return Err(format!("get_tag_data_type({:#x}) yields {}, declared {}", id, b, ty.name()));
        }
        checks += 1;
    }
    // id -> path
    let (m, def) = id_arms("get_path_by_id")?;
    if def != "&[]" {
        return Err(format!("get_path_by_id default arm is {}", def));
    }
    for (n, id, _, path) in &table {
        match m.get(id) {
            None => {
                if !path.is_empty() {
                    return Err(format!("get_path_by_id has no arm for {} ({:#x}) although a path was declared", n, id));
                }
            }
            Some(b) => {
                let got = parse_path_body(b)?;
                if got != *path {
                    return Err(format!("get_path_by_id({:#x}) yields {}, declared {}", id, render_path(&got), render_path(path)));
                }
            }
        }
        checks += 1;
    }
    if m.keys().any(|k| !table.iter().any(|t| t.1 == *k)) {
        return Err("get_path_by_id has an arm for an undeclared id".into());
    }
    // constructors
    for (f, ty, arg) in [
        ("get_unsigned_int_tag", Ty::U, "data"),
        ("get_signed_int_tag", Ty::I, "data"),
        ("get_utf8_tag", Ty::S, "data"),
        ("get_binary_tag", Ty::B, "data.to_vec()"),
        ("get_float_tag", Ty::F, "data"),
        ("get_master_tag", Ty::Master, "data"),
    ] {
        let (m, def) = id_arms(f)?;
        if def != "None" {
            return Err(format!("{} default arm is {}", f, def));
        }
        let want: BTreeMap<u64, String> = table.iter().filter(|t| t.2 == ty).map(|t| (t.1, format!("Some({}::{}({}))", en, t.0, arg))).collect();
        if m != want {
            return Err(format!("{}: constructor arms differ:\n  generated {:?}\n  expected  {:?}", f, m, want));
        }
        checks += want.len() as u64 + 1;
    }
    let raw = arms("get_raw_tag")?;
    if raw.len() != 1 || raw[0].1 != format!("{}::RawTag(id,data.to_vec())", en) {
        return Err(format!("get_raw_tag body is {:?}", raw));
    }
    // variant -> id
    let a = arms("get_id")?;
    let mut got: Vec<(String, String)> = a[1..].to_vec();
    let mut want: Vec<(String, String)> = table.iter().map(|t| (format!("{}::{}(_)", en, t.0), format!("{}u64", t.1))).collect();
    want.push((format!("{}::RawTag(id,_data)", en), "*id".into()));
    got.sort();
    want.sort();
    if got != want {
        return Err(format!("get_id arms differ:\n  generated {:?}\n  expected  {:?}", got, want));
    }
    checks += want.len() as u64;
    // accessors
    for (f, ty) in [("as_unsigned_int", Ty::U), ("as_signed_int", Ty::I), ("as_utf8", Ty::S), ("as_binary", Ty::B), ("as_float", Ty::F), ("as_master", Ty::Master)] {
        let a = arms(f)?;
        let mut got: Vec<(String, String)> = a[1..].to_vec();
        let mut want: Vec<(String, String)> = table.iter().filter(|t| t.2 == ty).map(|t| (format!("{}::{}(val)", en, t.0), "Some(val)".to_string())).collect();
        if ty == Ty::B {
            want.push((format!("{}::RawTag(_id,data)", en), "Some(data)".into()));
        }
        want.push(("_".into(), "None".into()));
        got.sort();
        want.sort();
        if got != want {
            return Err(format!("{} arms differ:\n  generated {:?}\n  expected  {:?}", f, got, want));
        }
        checks += want.len() as u64;
    }
    Ok(checks)
}

pub fn gen_decl(t: &mut Tape) -> (Decl, SpecTable) {
    let spec = gen_spec(t, SpecOpts { builtins: false, ..SpecOpts::default() });
    let hex = t.chance(1, 2);
    let mut d = decl_from_spec(&spec, "Gen", hex);
    // neither the order of a variant's attributes nor the order of the variants is part of the declaration's meaning
    if t.chance(1, 2) {
        for v in d.vars.iter_mut() {
            v.attr_order = t.below(6) as u8;
        }
    }
    if t.chance(1, 3) {
        for k in (1..d.vars.len()).rev() {
            let j = t.below(k + 1);
            d.vars.swap(k, j);
        }
    }
    // names are arbitrary identifiers: half of the declarations use names over a two-letter alphabet (A, B, AA, AB, ...), so that one
    // name can be the concatenation of others — whatever the macro keys by name or by a rendered path must still tell them apart
    if t.chance(1, 2) {
        let n = d.vars.len();
        let mut pool: Vec<String> = Vec::new();
        let mut len = 1;
        while pool.len() < n + 6 {
            for k in 0..(1usize << len) {
                pool.push((0..len).map(|b| if k >> (len - 1 - b) & 1 == 0 { 'A' } else { 'B' }).collect());
            }
            len += 1;
        }
        for k in (1..pool.len()).rev() {
            let j = t.below(k + 1);
            pool.swap(k, j);
        }
        let map: std::collections::HashMap<String, String> = d.vars.iter().enumerate().map(|(k, v)| (v.name.clone(), pool[k].clone())).collect();
        for v in d.vars.iter_mut() {
            v.name = map[&v.name].clone();
            for p in v.path.iter_mut() {
                if let PP::Name(x) = p {
                    if let Some(y) = map.get(x) {
                        *x = y.clone();
                    }
                }
            }
        }
    }
    (d, spec)
}

/// A path may name the same master more than once ("only in a folder nested in another folder"): Archive/(-)/Folder/(-)/Folder.  The
/// declaration stays well formed — the direct parent is the last named element, and the path begins with that parent's own path followed by
/// the parent — and what the macro generates must still be the path as written.
fn name_parent_twice(t: &mut Tape, d: &mut Decl) -> bool {
    // (an element nothing else is declared under: the paths of its children would have to change with it)
    let cands: Vec<usize> = (0..d.vars.len())
        .filter(|&i| d.vars[i].path.iter().any(|p| matches!(p, PP::Name(_))) && !d.vars.iter().any(|v| v.path.iter().any(|p| matches!(p, PP::Name(n) if *n == d.vars[i].name))))
        .collect();
    if cands.is_empty() {
        return false;
    }
    let i = cands[t.below(cands.len())];
    let parent = d.vars[i].path.iter().rev().find_map(|p| if let PP::Name(n) = p { Some(n.clone()) } else { None }).unwrap();
    if !matches!(d.vars[i].path.last(), Some(PP::Global(..))) {
        let g = match t.below(3) {
            0 => PP::Global(None, None),
            1 => PP::Global(Some(1), None),
            _ => PP::Global(None, Some(1 + t.below(3) as u64)),
        };
        d.vars[i].path.push(g);
    }
    d.vars[i].path.push(PP::Name(parent));
    if t.chance(1, 3) {
        d.vars[i].path.push(PP::Global(None, None));
    }
    true
}

/// Ids are numbers, and so are placeholder bounds: give the variants the ids 1..n and add a leaf whose path is that of an existing
/// grandchild with the last two parents `A/B` replaced by the placeholder `(id(A)-id(B))`.  Whatever the macro keys by "the numbers in a
/// path" must still tell `X/A/B` and `X/(a-b)` apart.
fn ids_that_coincide_with_bounds(t: &mut Tape, d: &mut Decl) -> bool {
    let n = d.vars.len();
    let mut perm: Vec<u64> = (1..=n as u64).collect();
    for k in (1..n).rev() {
        let j = t.below(k + 1);
        perm.swap(k, j);
    }
    for (k, v) in d.vars.iter_mut().enumerate() {
        v.id = perm[k];
    }
    let cands: Vec<usize> = (0..n).filter(|&i| { let p = &d.vars[i].path; p.len() >= 2 && matches!(p[p.len() - 1], PP::Name(_)) && matches!(p[p.len() - 2], PP::Name(_)) }).collect();
    if cands.is_empty() {
        return false;
    }
    let q = cands[t.below(cands.len())];
    let path = d.vars[q].path.clone();
    let (PP::Name(n1), PP::Name(n2)) = (&path[path.len() - 2], &path[path.len() - 1]) else { return false };
    let i1 = d.vars.iter().position(|v| &v.name == n1).unwrap();
    let i2 = d.vars.iter().position(|v| &v.name == n2).unwrap();
    if d.vars[i1].id > d.vars[i2].id {
        let x = d.vars[i1].id;
        d.vars[i1].id = d.vars[i2].id;
        d.vars[i2].id = x;
    }
    let mut np: Vec<PP> = path[..path.len() - 2].to_vec();
    if matches!(np.last(), Some(PP::Global(..))) {
        return false;
    }
    np.push(PP::Global(Some(d.vars[i1].id), Some(d.vars[i2].id)));
    let mut nv = d.vars[q].clone();
    nv.name = format!("Zz{}", n);
    nv.id = n as u64 + 1;
    nv.ty = Ty::U;
    nv.path = np;
    let at = t.below(n + 1);
    d.vars.insert(at, nv);
    true
}

fn stage_valid(i: &Input, c: &mut Case) -> Result<(), String> {
    let mut t = Tape::new(i.tape());
    let (mut d, spec) = gen_decl(&mut t);
    if t.chance(1, 6) && name_parent_twice(&mut t, &mut d) {
        c.label("path_names_its_parent_twice");
    }
    if t.chance(1, 8) && ids_that_coincide_with_bounds(&mut t, &mut d) {
        c.label("ids_coincide_with_placeholder_bounds");
    }
    let a_src = render_attr(&d);
    let e_src = render_easy(&d);
    c.key(&a_src);
    c.sample_with(|| e_src.clone());
    let types: std::collections::BTreeSet<Ty> = d.vars.iter().map(|v| v.ty).collect();
    let depth = d.vars.iter().map(|v| v.path.len()).max().unwrap_or(0);
    let placeholder = spec.elems.iter().any(|e| e.is_global());
    c.nontrivial = types.len() >= 4 && depth >= 3 && placeholder;
    c.label_if(placeholder, "has_placeholder");
    c.label_if(spec.elems.iter().any(|e| e.path.len() > 1 && matches!(e.path[e.path.len() - 1], PathPart::Id(_)) && e.path.iter().any(|p| matches!(p, PathPart::Global(_)))), "intermediate_placeholder");
    c.label_if(depth >= 3, "depth3plus");
    c.label_if(d.vars.iter().any(|v| v.attr_order != 0 && !v.path.is_empty()), "attributes_in_another_order");
    c.label_if(d.vars.iter().any(|v| !v.name.starts_with('V')), "names_over_a_two_letter_alphabet");
    c.label_if(d.vars.iter().enumerate().any(|(k, v)| v.path.iter().any(|p| matches!(p, PP::Name(n) if d.vars[k + 1..].iter().any(|w| &w.name == n)))), "child_declared_before_parent");
    let a = expand_attribute(&a_src);
    let e = expand_easy(&e_src);
    let (at, et) = match (&a, &e) {
        (Outcome::Ok(x), Outcome::Ok(y)) => (x, y),
        _ => return Err(format!("a well-formed declaration was rejected:\n  attribute form: {:?}\n  easy_ebml form: {:?}\n{}", short(&a), short(&e), e_src)),
    };
    c.checks += 1;
    if at != et {
        let k = at.chars().zip(et.chars()).take_while(|(x, y)| x == y).count();
        return Err(format!("the two front ends generate different code (first difference at char {}):\n  attr: …{}\n  easy: …{}\n{}", k, &at[k.saturating_sub(40)..(k + 80).min(at.len())], &et[k.saturating_sub(40)..(k + 80).min(et.len())], e_src));
    }
    let it = interpret(at).map_err(|m| format!("{}\n{}", m, e_src))?;
    c.checks += check_meaning(&d, &it).map_err(|m| format!("{}\n{}", m, e_src))?;
    Ok(())
}

fn short(o: &Outcome) -> String {
    match o {
        Outcome::Ok(_) => "Ok(..)".into(),
        other => format!("{:?}", other),
    }
}

pub const BREAKS: [&str; 14] = [
    "duplicate_id",
    "duplicate_builtin_id",
    "unknown_variant_in_path",
    "leaf_under_non_master",
    "master_under_non_master",
    "parent_path_not_prefix",
    "parent_not_following_its_path",
    "parent_path_longer",
    "zero_max_placeholder",
    "adjacent_placeholders",
    "missing_id",
    "missing_data_type",
    "unknown_data_type",
    "own_parent",
];

/// derive a broken declaration; None if this valid declaration offers no site for the edit
pub fn break_decl(t: &mut Tape, d: &Decl, kind: usize) -> Option<Decl> {
    let mut b = d.clone();
    let n = b.vars.len();
    let masters: Vec<usize> = (0..n).filter(|&i| b.vars[i].ty == Ty::Master).collect();
    let leaves: Vec<usize> = (0..n).filter(|&i| b.vars[i].ty != Ty::Master).collect();
    let named_parent = |v: &Var| -> Option<String> { v.path.iter().rev().find_map(|p| if let PP::Name(x) = p { Some(x.clone()) } else { None }) };
    match BREAKS[kind] {
        "duplicate_id" => {
            if n < 2 {
                return None;
            }
            let i = t.below(n);
            let mut j = t.below(n);
            if i == j {
                j = (j + 1) % n;
            }
            b.vars[j].id = b.vars[i].id;
        }
        "duplicate_builtin_id" => {
            let i = t.below(n);
            b.vars[i].id = if t.chance(1, 2) { 0xbf } else { 0xec };
        }
        "unknown_variant_in_path" => {
            let with_path: Vec<usize> = (0..n).filter(|&i| b.vars[i].path.iter().any(|p| matches!(p, PP::Name(_)))).collect();
            if with_path.is_empty() {
                return None;
            }
            let i = with_path[t.below(with_path.len())];
            let k = b.vars[i].path.iter().position(|p| matches!(p, PP::Name(_))).unwrap();
            b.vars[i].path[k] = PP::Name("Nowhere".into());
        }
        "leaf_under_non_master" | "master_under_non_master" => {
            // a child whose named parent is a leaf variant
            let pool = if BREAKS[kind] == "leaf_under_non_master" { &leaves } else { &masters };
            let pool: Vec<usize> = pool.iter().copied().filter(|&i| !d.vars.iter().any(|v| named_parent(v).as_deref() == Some(d.vars[i].name.as_str()))).collect();
            if pool.is_empty() || leaves.is_empty() {
                return None;
            }
            let child = pool[t.below(pool.len())];
            let cands: Vec<usize> = leaves.iter().copied().filter(|&l| l != child).collect();
            if cands.is_empty() {
                return None;
            }
            let par = cands[t.below(cands.len())];
            let mut p = b.vars[par].path.clone();
            p.push(PP::Name(b.vars[par].name.clone()));
            b.vars[child].path = p;
        }
        "parent_path_not_prefix" => {
            // child under a parent that itself has a non-empty path: replace the first segment of the child's path
            let cands: Vec<usize> = (0..n)
                .filter(|&i| {
                    named_parent(&b.vars[i]).map(|p| b.vars.iter().any(|v| v.name == p && !v.path.is_empty())).unwrap_or(false) && matches!(b.vars[i].path[0], PP::Name(_))
                })
                .collect();
            if cands.is_empty() || masters.len() < 2 {
                return None;
            }
            let i = cands[t.below(cands.len())];
            let first = if let PP::Name(x) = &b.vars[i].path[0] { x.clone() } else { return None };
            let other: Vec<&usize> = masters.iter().filter(|&&m| b.vars[m].name != first && b.vars[m].name != b.vars[i].name).collect();
            if other.is_empty() {
                return None;
            }
            let m = *other[t.below(other.len())];
            let nm = b.vars[m].name.clone();
            b.vars[i].path[0] = PP::Name(nm);
        }
        "parent_not_following_its_path" => {
            // A/X/B/C where B's path is A: insert another master between the parent's path and the parent
            let cands: Vec<usize> = (0..n).filter(|&i| b.vars[i].path.len() >= 2 && matches!(b.vars[i].path.last(), Some(PP::Name(_)))).collect();
            if cands.is_empty() || masters.is_empty() {
                return None;
            }
            let i = cands[t.below(cands.len())];
            let pos = b.vars[i].path.len() - 1;
            let parent = if let PP::Name(x) = &b.vars[i].path[pos] { x.clone() } else { return None };
            let other: Vec<&usize> = masters.iter().filter(|&&m| b.vars[m].name != parent && b.vars[m].name != b.vars[i].name).collect();
            if other.is_empty() {
                return None;
            }
            let m = *other[t.below(other.len())];
            let nm = b.vars[m].name.clone();
            b.vars[i].path.insert(pos, PP::Name(nm));
        }
        "parent_path_longer" => {
            // child's path is just [Parent] although Parent has a path of its own
            let cands: Vec<usize> = (0..n).filter(|&i| named_parent(&b.vars[i]).map(|p| b.vars.iter().any(|v| v.name == p && !v.path.is_empty())).unwrap_or(false)).collect();
            if cands.is_empty() {
                return None;
            }
            let i = cands[t.below(cands.len())];
            let p = named_parent(&b.vars[i]).unwrap();
            b.vars[i].path = vec![PP::Name(p)];
        }
        "zero_max_placeholder" => {
            let i = t.below(n);
            let min = if t.chance(1, 2) { None } else { Some(0) };
            b.vars[i].path.push(PP::Global(min, Some(0)));
        }
        "adjacent_placeholders" => {
            let i = t.below(n);
            b.vars[i].path.push(PP::Global(None, None));
            b.vars[i].path.push(PP::Global(Some(1), None));
        }
        "missing_id" => {
            let i = t.below(n);
            b.vars[i].omit_id = true;
        }
        "missing_data_type" => {
            let i = t.below(n);
            b.vars[i].omit_type = true;
        }
        "unknown_data_type" => {
            let i = t.below(n);
            b.vars[i].ty_text = Some((*t.pick(&["Date", "Uint", "master", "String"])).to_string());
        }
        "own_parent" => {
            // an element that names itself as its parent: its path cannot extend "its parent's" declared path
            if masters.is_empty() {
                return None;
            }
            let i = masters[t.below(masters.len())];
            let me = b.vars[i].name.clone();
            if t.chance(1, 2) {
                b.vars[i].path = vec![PP::Name(me)];
            } else {
                b.vars[i].path.push(PP::Name(me));
            }
        }
        _ => return None,
    }
    Some(b)
}

fn stage_broken(i: &Input, c: &mut Case) -> Result<(), String> {
    let mut t = Tape::new(i.tape());
    let (d, _) = gen_decl(&mut t);
    let drawn = t.below(BREAKS.len());
    // debugging aid for re-recording pins against a reverted fix: EBV_C18_KIND=<name> forces one kind of edit
    let kind = match std::env::var("EBV_C18_KIND") {
        Ok(k) => BREAKS.iter().position(|b| *b == k).unwrap_or(drawn),
        Err(_) => drawn,
    };
    if std::env::var("EBV_C18_SKIP").map(|k| k == BREAKS[kind]).unwrap_or(false) {
        c.skipped = true;
        return Ok(());
    }
    let Some(b) = break_decl(&mut t, &d, kind) else {
        c.skipped = true;
        c.exclude("no_site_for_this_edit");
        return Ok(());
    };
    let a_src = render_attr(&b);
    let attr_only = matches!(BREAKS[kind], "missing_id" | "missing_data_type");
    let e_src = render_easy(&b);
    c.label(BREAKS[kind]);
    c.nontrivial = true;
    c.key(&a_src);
    c.sample_with(|| format!("[{}]\n{}", BREAKS[kind], a_src));
    let a = expand_attribute(&a_src);
    c.checks += 1;
    match &a {
        Outcome::Ok(_) => return Err(format!("the attribute macro ACCEPTED a declaration broken by [{}]:\n{}", BREAKS[kind], a_src)),
        Outcome::Err(_) => c.label("rejected_with_error"),
        Outcome::Panic(_) => c.label("rejected_with_panic"),
        Outcome::Parse(m) => return Err(format!("harness: broken declaration does not even lex/parse as an enum: {}\n{}", m, a_src)),
    }
    if !attr_only {
        let e = expand_easy(&e_src);
        c.checks += 1;
        match &e {
            Outcome::Ok(_) => return Err(format!("easy_ebml! ACCEPTED a declaration broken by [{}]:\n{}", BREAKS[kind], e_src)),
            Outcome::Parse(m) => return Err(format!("harness: easy_ebml body does not lex: {}\n{}", m, e_src)),
            _ => {}
        }
    }
    Ok(())
}

pub const STAGES: &[Stage] = &[Stage { name: "valid_in_process", f: stage_valid }, Stage { name: "broken_in_process", f: stage_broken }, STAGE_COMPILED, STAGE_REJECT];

pub fn run(rc: &mut RunCtx) {
    rc.run_pt(STAGES[0], rc.pick(4_000, 150_000), (96, 300));
    rc.run_pt(STAGES[1], rc.pick(8_000, 300_000), (96, 300));
    rc.require_label("valid_in_process", "has_placeholder", 300_000);
    rc.require_label("valid_in_process", "intermediate_placeholder", 50_000);
    rc.require_label("valid_in_process", "attributes_in_another_order", 100_000);
    rc.require_label("valid_in_process", "child_declared_before_parent", 50_000);
    for b in BREAKS {
        rc.require_label("broken_in_process", b, 10_000);
    }
    // compiled engine
    let batches = rc.pick(1u64, 8u64);
    for b in 0..batches {
        if rc.has_failure() {
            break;
        }
        let seeds: Vec<u64> = (0..24u64).map(|k| rc.seed.wrapping_mul(7919).wrapping_add(b * 1000 + k)).collect();
        rc.run_one(STAGE_COMPILED, Input::Args(seeds));
    }
    let rejects = rc.pick(2u64, 6u64);
    for r in 0..rejects {
        if rc.has_failure() {
            break;
        }
        rc.run_one(STAGE_REJECT, Input::Args(vec![rc.seed.wrapping_mul(31).wrapping_add(r), r * 3 + 1, r]));
    }
}

// ---------------------------------------------------------------------------------------------
// compiled engine: the real proc-macros + rustc

fn ty_code(t: Ty) -> u8 {
    Ty::ALL.iter().position(|x| *x == t).unwrap() as u8
}

pub fn render_batch(decls: &[Decl]) -> String {
    let mut s = String::from("// generated by ebv C18 — do not edit\n");
    for (k, d) in decls.iter().enumerate() {
        let mut d = d.clone();
        d.name = "S".into();
        let ids: BTreeMap<String, u64> = d.vars.iter().map(|v| (v.name.clone(), v.id)).collect();
        s.push_str(&format!("pub mod d{} {{\n", k));
        s.push_str("    #[allow(unused_imports, dead_code)]\n    pub mod a {\n        use ebml_iterable::specs::{ebml_specification, TagDataType};\n        #[ebml_specification]\n");
        s.push_str(&render_attr(&d));
        s.push_str("    }\n    #[allow(unused_imports, dead_code)]\n    pub mod e {\n        use ebml_iterable::specs::{easy_ebml, TagDataType};\n        easy_ebml! {\n");
        s.push_str(&render_easy(&d));
        s.push_str("        }\n    }\n");
        s.push_str("    pub const TABLE: &[crate::Row] = &[\n");
        for v in &d.vars {
            let path: Vec<String> = v
                .path
                .iter()
                .map(|p| match p {
                    PP::Name(n) => format!("crate::P::Id({})", ids[n]),
                    PP::Global(a, b) => format!("crate::P::G({:?}, {:?})", a, b),
                })
                .collect();
            s.push_str(&format!("        crate::Row {{ name: \"{}\", id: {}, ty: {}, path: &[{}] }},\n", v.name, v.id, ty_code(v.ty), path.join(", ")));
        }
        s.push_str("    ];\n}\n");
    }
    s.push_str("pub fn run_all(out: &mut Vec<String>) {\n");
    for k in 0..decls.len() {
        s.push_str(&format!("    out.push(crate::run_one::<d{k}::a::S>({k}, \"attribute\", d{k}::TABLE));\n    out.push(crate::run_one::<d{k}::e::S>({k}, \"easy_ebml\", d{k}::TABLE));\n", k = k));
    }
    s.push_str("}\n");
    s
}

fn harness_dir() -> std::path::PathBuf {
    let root = std::env::var("VERIF_ROOT").map(std::path::PathBuf::from).unwrap_or_else(|_| std::path::PathBuf::from("/verif"));
    root.join("harness")
}

/// build the batch crate with the given generated source; Ok(stdout of the run) or Err(compiler output)
pub fn build_and_run_batch(src: &str, run: bool) -> Result<String, String> {
    let dir = harness_dir();
    let gen_dir = dir.join("target").join("batch-gen");
    std::fs::create_dir_all(&gen_dir).map_err(|e| e.to_string())?;
    let file = gen_dir.join(format!("generated-{}.rs", std::process::id()));
    std::fs::write(&file, src).map_err(|e| e.to_string())?;
    let out = std::process::Command::new("cargo")
        .args(["build", "--profile", "verif", "-p", "ebv-batch", "--offline"])
        .current_dir(&dir)
        .env("EBV_BATCH_SRC", &file)
        .env("CARGO_NET_OFFLINE", "true")
        .output()
        .map_err(|e| format!("cannot run cargo: {}", e))?;
    let _ = std::fs::remove_file(&file);
    if !out.status.success() {
        return Err(String::from_utf8_lossy(&out.stderr).to_string());
    }
    if !run {
        return Ok(String::new());
    }
    let bin = dir.join("target").join("verif").join("ebv-batch");
    let r = std::process::Command::new(bin).output().map_err(|e| format!("cannot run the batch binary: {}", e))?;
    let so = String::from_utf8_lossy(&r.stdout).to_string();
    if !r.status.success() || !so.contains("BATCH DONE") {
        return Err(format!("batch binary failed: status {:?}\n{}\n{}", r.status, so, String::from_utf8_lossy(&r.stderr)));
    }
    Ok(so)
}

fn decl_from_seed(seed: u64) -> Decl {
    let tape = sample_tape(seed, 220);
    let mut t = Tape::new(&tape);
    gen_decl(&mut t).0
}

fn stage_compiled(i: &Input, c: &mut Case) -> Result<(), String> {
    let decls: Vec<Decl> = i.args().iter().map(|s| decl_from_seed(*s)).collect();
    let src = render_batch(&decls);
    c.sample_with(|| format!("{} declarations through #[ebml_specification] and easy_ebml!, compiled by rustc; first one:\n{}", decls.len(), render_easy(&decls[0])));
    let out = build_and_run_batch(&src, true).map_err(|e| {
        let tail: String = e.lines().filter(|l| l.contains("error") || l.starts_with("  ") || l.starts_with(" -->")).take(40).collect::<Vec<_>>().join("\n");
        format!("a batch of well-formed declarations does not compile / run:\n{}", tail)
    })?;
    let mut ok = 0u64;
    let mut checks = 0u64;
    for line in out.lines() {
        if let Some(rest) = line.strip_prefix("DECL ") {
            let parts: Vec<&str> = rest.splitn(4, ' ').collect();
            if parts.len() >= 4 && parts[2] == "OK" {
                ok += 1;
                checks += parts[3].trim().parse::<u64>().unwrap_or(0);
            } else if parts.len() >= 4 {
                let k: usize = parts[0].parse().unwrap_or(0);
                return Err(format!("compiled declaration #{} ({} front end) misbehaves: {}\n{}", k, parts[1], parts[3], render_easy(&decls[k.min(decls.len() - 1)])));
            }
        }
    }
    if ok != 2 * decls.len() as u64 {
        return Err(format!("expected {} results from the batch, got {}", 2 * decls.len(), ok));
    }
    c.units = ok;
    c.nontrivial_units = ok;
    c.checks = checks;
    c.key(&src);
    Ok(())
}

const BOGUS: [&str; 3] = ["bogus", "idd(5)", "doc_paths(V0)"];

fn stage_rustc_reject(i: &Input, c: &mut Case) -> Result<(), String> {
    let a = i.args();
    let mut d = decl_from_seed(a[0]);
    let k = (a[1] as usize) % d.vars.len();
    let attr = BOGUS[(a[2] as usize) % BOGUS.len()];
    d.vars[k].extra_attr = Some(attr.to_string());
    d.name = "S".into();
    let src = format!(
        "pub mod d0 {{\n    #[allow(unused_imports, dead_code)]\n    pub mod a {{\n        use ebml_iterable::specs::{{ebml_specification, TagDataType}};\n        #[ebml_specification]\n{}    }}\n}}\npub fn run_all(_out: &mut Vec<String>) {{}}\n",
        render_attr(&d)
    );
    c.nontrivial = true;
    c.key(&src);
    c.sample_with(|| format!("unknown attribute #[{}] left on variant {}: must be a compile error", attr, d.vars[k].name));
    c.checks += 1;
    match build_and_run_batch(&src, false) {
        Ok(_) => Err(format!("a declaration with the unknown attribute #[{}] on a variant compiled:\n{}", attr, render_attr(&d))),
        Err(e) => {
            if e.contains("cannot find attribute") || e.contains("error") {
                Ok(())
            } else {
                Err(format!("build failed for an unexpected reason:\n{}", e.lines().take(30).collect::<Vec<_>>().join("\n")))
            }
        }
    }
}

pub const STAGE_COMPILED: Stage = Stage { name: "compiled_batch", f: stage_compiled };
pub const STAGE_REJECT: Stage = Stage { name: "rustc_rejects_unknown_attribute", f: stage_rustc_reject };
