//! `DynTag`: a specification whose static trait functions consult a table chosen at run time,
//! so that the library can be driven under *generated* specifications. Consistent by
//! construction: it constructs a tag of a type iff the table says the id has that type.
//!
//! Also: `RichSpec`, a fixed specification produced by the real `easy_ebml!` macro, with a
//! hand-written table that mirrors its declaration; and conversions between library tags and
//! the neutral `Flat` model (through the public trait accessors only).

use std::cell::RefCell;
use std::collections::HashMap;
use std::rc::Rc;

use ebml_iterable::specs::{EbmlSpecification, EbmlTag, Master, PathPart, TagDataType};

use crate::model::*;

thread_local! {
    static CURRENT: RefCell<Rc<SpecTable>> = RefCell::new(Rc::new(SpecTable::default()));
    static INTERN: RefCell<HashMap<Vec<PathPart>, &'static [PathPart]>> = RefCell::new(HashMap::new());
}

/// Intern (and leak once per distinct path and thread) a path so it can be handed out as `&'static`.
pub fn intern_path(p: &[PathPart]) -> &'static [PathPart] {
    if p.is_empty() {
        return &[];
    }
    INTERN.with(|m| {
        let mut m = m.borrow_mut();
        if let Some(s) = m.get(p) {
            return *s;
        }
        let leaked: &'static [PathPart] = Box::leak(p.to_vec().into_boxed_slice());
        m.insert(p.to_vec(), leaked);
        leaked
    })
}

pub fn interned_paths() -> usize {
    INTERN.with(|m| m.borrow().len())
}

pub fn set_current(t: Rc<SpecTable>) {
    CURRENT.with(|c| *c.borrow_mut() = t);
}

pub fn current() -> Rc<SpecTable> {
    CURRENT.with(|c| c.borrow().clone())
}

#[derive(Clone, Debug)]
pub enum Val {
    Master(Master<DynTag>),
    U(u64),
    I(i64),
    F(f64),
    S(String),
    B(Vec<u8>),
    Raw(Vec<u8>),
}

#[derive(Clone, Debug)]
pub struct DynTag {
    pub id: u64,
    pub val: Val,
}

fn ty_to_lib(t: Ty) -> TagDataType {
    match t {
        Ty::Master => TagDataType::Master,
        Ty::U => TagDataType::UnsignedInt,
        Ty::I => TagDataType::Integer,
        Ty::S => TagDataType::Utf8,
        Ty::B => TagDataType::Binary,
        Ty::F => TagDataType::Float,
    }
}

pub fn lib_to_ty(t: TagDataType) -> Ty {
    match t {
        TagDataType::Master => Ty::Master,
        TagDataType::UnsignedInt => Ty::U,
        TagDataType::Integer => Ty::I,
        TagDataType::Utf8 => Ty::S,
        TagDataType::Binary => Ty::B,
        TagDataType::Float => Ty::F,
    }
}

fn cur_ty(id: u64) -> Option<Ty> {
    CURRENT.with(|c| c.borrow().ty(id))
}

impl EbmlSpecification<DynTag> for DynTag {
    fn get_tag_data_type(id: u64) -> Option<TagDataType> {
        cur_ty(id).map(ty_to_lib)
    }
    fn get_path_by_id(id: u64) -> &'static [PathPart] {
        CURRENT.with(|c| {
            let c = c.borrow();
            match c.by_id.get(&id) {
                Some(&i) => c.static_paths[i],
                None => &[],
            }
        })
    }
    fn get_unsigned_int_tag(id: u64, data: u64) -> Option<DynTag> {
        (cur_ty(id) == Some(Ty::U)).then(|| DynTag { id, val: Val::U(data) })
    }
    fn get_signed_int_tag(id: u64, data: i64) -> Option<DynTag> {
        (cur_ty(id) == Some(Ty::I)).then(|| DynTag { id, val: Val::I(data) })
    }
    fn get_utf8_tag(id: u64, data: String) -> Option<DynTag> {
        (cur_ty(id) == Some(Ty::S)).then(|| DynTag { id, val: Val::S(data) })
    }
    fn get_binary_tag(id: u64, data: &[u8]) -> Option<DynTag> {
        (cur_ty(id) == Some(Ty::B)).then(|| DynTag { id, val: Val::B(data.to_vec()) })
    }
    fn get_float_tag(id: u64, data: f64) -> Option<DynTag> {
        (cur_ty(id) == Some(Ty::F)).then(|| DynTag { id, val: Val::F(data) })
    }
    fn get_master_tag(id: u64, data: Master<DynTag>) -> Option<DynTag> {
        (cur_ty(id) == Some(Ty::Master)).then(|| DynTag { id, val: Val::Master(data) })
    }
    fn get_raw_tag(id: u64, data: &[u8]) -> DynTag {
        DynTag { id, val: Val::Raw(data.to_vec()) }
    }
}

impl EbmlTag<DynTag> for DynTag {
    fn get_id(&self) -> u64 {
        self.id
    }
    fn as_unsigned_int(&self) -> Option<&u64> {
        match &self.val {
            Val::U(v) => Some(v),
            _ => None,
        }
    }
    fn as_signed_int(&self) -> Option<&i64> {
        match &self.val {
            Val::I(v) => Some(v),
            _ => None,
        }
    }
    fn as_utf8(&self) -> Option<&str> {
        match &self.val {
            Val::S(v) => Some(v),
            _ => None,
        }
    }
    fn as_binary(&self) -> Option<&[u8]> {
        match &self.val {
            Val::B(v) | Val::Raw(v) => Some(v),
            _ => None,
        }
    }
    fn as_float(&self) -> Option<&f64> {
        match &self.val {
            Val::F(v) => Some(v),
            _ => None,
        }
    }
    fn as_master(&self) -> Option<&Master<DynTag>> {
        match &self.val {
            Val::Master(m) => Some(m),
            _ => None,
        }
    }
}

// ---------------------------------------------------------------------------------------------
// RichSpec: produced by the real macro.

pub mod rich {
    use ebml_iterable::specs::easy_ebml;
    #[allow(unused_imports)]
    use ebml_iterable::specs::TagDataType;

    easy_ebml! {
        #[derive(Clone, Debug, PartialEq)]
        pub enum RichSpec {
            Head                          : Master      = 0x1a45dfa3,
            Head/Version                  : UnsignedInt = 0x4286,
            Head/DocType                  : Utf8        = 0x4282,
            Body                          : Master      = 0x18538067,
            Body/Info                     : Master      = 0x1549a966,
            Body/Info/Title               : Utf8        = 0x7ba9,
            Body/Info/Scale               : Float       = 0x2ad7b1,
            Body/Info/Delta               : Integer     = 0x4461,
            Body/Group                    : Master      = 0x1f43b675,
            Body/Group/Stamp              : UnsignedInt = 0xe7,
            Body/Group/Blob               : Binary      = 0xa3,
            Body/Group/Sub                : Master      = 0xa0,
            Body/Group/Sub/Data           : Binary      = 0xa1,
            Body/Group/Sub/Ref            : Integer     = 0xfb,
            Body/Group/Sub/Deep           : Master      = 0x75a1,
            Body/Group/Sub/Deep/Leaf      : UnsignedInt = 0xee,
            Body/Group/Sub/Deep/Ratio     : Float       = 0xb5,
            Body/Group/Sub/Deep/Inner     : Master      = 0x8e,
            Body/Group/Sub/Deep/Inner/Bit : UnsignedInt = 0xcc,
            Body/(0-2)/Note               : Utf8        = 0x4487,
            (1-)/Mark                     : Binary      = 0x63ca,
            Body/Tags                     : Master      = 0x1254c367,
            Body/Tags/(1-3)/Simple        : Master      = 0x67c8,
            Body/Tags/(1-3)/Simple/Name   : Utf8        = 0x45a3,
            Body/Tags/Tag                 : Master      = 0x7373,
            Body/Tags/Tag/Targets         : Master      = 0x63c0,
        }
    }
}
pub use rich::RichSpec;

pub fn rich_table() -> SpecTable {
    use PathPart::{Global as G, Id};
    let head = 0x1a45dfa3u64;
    let body = 0x18538067u64;
    let info = 0x1549a966u64;
    let group = 0x1f43b675u64;
    let sub = 0xa0u64;
    let deep = 0x75a1u64;
    let inner = 0x8eu64;
    let tags = 0x1254c367u64;
    let simple = 0x67c8u64;
    let tag = 0x7373u64;
    let e = |name: &str, ty: Ty, id: u64, path: Vec<PathPart>| Elem { id, ty, path, name: name.to_string() };
    SpecTable::new(vec![
        e("Head", Ty::Master, head, vec![]),
        e("Version", Ty::U, 0x4286, vec![Id(head)]),
        e("DocType", Ty::S, 0x4282, vec![Id(head)]),
        e("Body", Ty::Master, body, vec![]),
        e("Info", Ty::Master, info, vec![Id(body)]),
        e("Title", Ty::S, 0x7ba9, vec![Id(body), Id(info)]),
        e("Scale", Ty::F, 0x2ad7b1, vec![Id(body), Id(info)]),
        e("Delta", Ty::I, 0x4461, vec![Id(body), Id(info)]),
        e("Group", Ty::Master, group, vec![Id(body)]),
        e("Stamp", Ty::U, 0xe7, vec![Id(body), Id(group)]),
        e("Blob", Ty::B, 0xa3, vec![Id(body), Id(group)]),
        e("Sub", Ty::Master, sub, vec![Id(body), Id(group)]),
        e("Data", Ty::B, 0xa1, vec![Id(body), Id(group), Id(sub)]),
        e("Ref", Ty::I, 0xfb, vec![Id(body), Id(group), Id(sub)]),
        e("Deep", Ty::Master, deep, vec![Id(body), Id(group), Id(sub)]),
        e("Leaf", Ty::U, 0xee, vec![Id(body), Id(group), Id(sub), Id(deep)]),
        e("Ratio", Ty::F, 0xb5, vec![Id(body), Id(group), Id(sub), Id(deep)]),
        e("Inner", Ty::Master, inner, vec![Id(body), Id(group), Id(sub), Id(deep)]),
        e("Bit", Ty::U, 0xcc, vec![Id(body), Id(group), Id(sub), Id(deep), Id(inner)]),
        e("Note", Ty::S, 0x4487, vec![Id(body), G((Some(0), Some(2)))]),
        e("Mark", Ty::B, 0x63ca, vec![G((Some(1), None))]),
        e("Tags", Ty::Master, tags, vec![Id(body)]),
        e("Simple", Ty::Master, simple, vec![Id(body), Id(tags), G((Some(1), Some(3)))]),
        e("Name", Ty::S, 0x45a3, vec![Id(body), Id(tags), G((Some(1), Some(3))), Id(simple)]),
        e("Tag", Ty::Master, tag, vec![Id(body), Id(tags)]),
        e("Targets", Ty::Master, 0x63c0, vec![Id(body), Id(tags), Id(tag)]),
        e("Crc32", Ty::B, 0xbf, vec![G((Some(1), None))]),
        e("Void", Ty::B, 0xec, vec![G((None, None))]),
    ])
}

// ---------------------------------------------------------------------------------------------
// Conversions through the public trait surface.

pub trait Spec: EbmlSpecification<Self> + EbmlTag<Self> + Clone + std::fmt::Debug + Sized + 'static {}
impl<T: EbmlSpecification<T> + EbmlTag<T> + Clone + std::fmt::Debug + Sized + 'static> Spec for T {}

/// Build a library tag from the neutral model through the specification's own constructors.
/// Returns None if the specification refuses (which for a consistent spec means a harness bug).
pub fn to_tag<T: Spec>(f: &Flat) -> Option<T> {
    match f {
        Flat::Start(id) => T::get_master_tag(*id, Master::Start),
        Flat::End(id) => T::get_master_tag(*id, Master::End),
        Flat::Full(id, ch) => {
            let mut v = Vec::with_capacity(ch.len());
            for c in ch {
                v.push(to_tag::<T>(c)?);
            }
            T::get_master_tag(*id, Master::Full(v))
        }
        Flat::Leaf(id, p) => match p {
            Payload::U(v) => T::get_unsigned_int_tag(*id, *v),
            Payload::I(v) => T::get_signed_int_tag(*id, *v),
            Payload::F(b) => T::get_float_tag(*id, f64::from_bits(*b)),
            Payload::S(s) => T::get_utf8_tag(*id, s.clone()),
            Payload::B(b) => T::get_binary_tag(*id, b),
            Payload::Raw(b) => Some(T::get_raw_tag(*id, b)),
        },
    }
}

/// Observe a library tag through its accessors. `known` tells whether the id is in the spec
/// (binary of an unknown id is a raw tag).
pub fn from_tag<T: Spec>(t: &T) -> Flat {
    let id = t.get_id();
    if let Some(m) = t.as_master() {
        return match m {
            Master::Start => Flat::Start(id),
            Master::End => Flat::End(id),
            Master::Full(ch) => Flat::Full(id, ch.iter().map(from_tag::<T>).collect()),
        };
    }
    if let Some(v) = t.as_unsigned_int() {
        return Flat::Leaf(id, Payload::U(*v));
    }
    if let Some(v) = t.as_signed_int() {
        return Flat::Leaf(id, Payload::I(*v));
    }
    if let Some(v) = t.as_float() {
        return Flat::Leaf(id, Payload::F(v.to_bits()));
    }
    if let Some(v) = t.as_utf8() {
        return Flat::Leaf(id, Payload::S(v.to_string()));
    }
    if let Some(v) = t.as_binary() {
        return if T::get_tag_data_type(id).is_some() {
            Flat::Leaf(id, Payload::B(v.to_vec()))
        } else {
            Flat::Leaf(id, Payload::Raw(v.to_vec()))
        };
    }
    panic!("harness: tag {:?} exposes no accessor", t);
}
