//! Reference model, written from RFC 8794 and the property statements.
//! Never calls the code under test.

use crate::model::*;

// ---------------------------------------------------------------------------------------------
// vints

/// minimal vint width (1..=8) able to hold `v` *as a number* (v < 2^(7w)); None if v >= 2^56
pub fn vint_min_width(v: u64) -> Option<usize> {
    (1..=8).find(|w| (v as u128) < (1u128 << (7 * w)))
}

/// reference unsigned vint encoder: exactly `w` bytes; None if it does not fit
pub fn ref_vint(v: u64, w: usize) -> Option<Vec<u8>> {
    assert!((1..=8).contains(&w));
    if (v as u128) >= (1u128 << (7 * w)) {
        return None;
    }
    let x: u128 = (1u128 << (7 * w)) | v as u128;
    Some((0..w).rev().map(|i| ((x >> (8 * i)) & 0xFF) as u8).collect())
}

#[derive(Debug, Clone, PartialEq, Eq)]
pub enum VintRead {
    /// slice is empty or a proper prefix of a vint
    NeedMore,
    /// first byte is zero: length marker beyond 8 bytes
    Bad,
    Ok { value: u64, len: usize },
}

pub fn ref_read_vint(b: &[u8]) -> VintRead {
    if b.is_empty() {
        return VintRead::NeedMore;
    }
    if b[0] == 0 {
        return VintRead::Bad;
    }
    let len = b[0].leading_zeros() as usize + 1;
    if b.len() < len {
        return VintRead::NeedMore;
    }
    let mut x: u128 = 0;
    for &y in &b[..len] {
        x = (x << 8) | y as u128;
    }
    x &= (1u128 << (7 * len)) - 1;
    VintRead::Ok { value: x as u64, len }
}

/// signed vint: value bits (7w) hold two's complement
pub fn ref_svint(v: i64, w: usize) -> Option<Vec<u8>> {
    assert!((1..=8).contains(&w));
    let lo = -(1i128 << (7 * w - 1));
    let hi = 1i128 << (7 * w - 1);
    let v = v as i128;
    if v < lo || v >= hi {
        return None;
    }
    let bits = (v & ((1i128 << (7 * w)) - 1)) as u128;
    let x: u128 = (1u128 << (7 * w)) | bits;
    Some((0..w).rev().map(|i| ((x >> (8 * i)) & 0xFF) as u8).collect())
}

pub fn ref_read_svint(b: &[u8]) -> Option<(i64, usize)> {
    match ref_read_vint(b) {
        VintRead::Ok { value, len } => {
            let bits = 7 * len;
            let mut v = value as i128;
            if v & (1i128 << (bits - 1)) != 0 {
                v -= 1i128 << bits;
            }
            Some((v as i64, len))
        }
        _ => None,
    }
}

/// well-formed id: byte length of the number equals the length its marker announces
pub fn ref_is_wellformed_id(x: u64) -> bool {
    if x == 0 {
        return false;
    }
    let byte_len = (64 - x.leading_zeros() as usize + 7) / 8;
    let top = (x >> (8 * (byte_len - 1))) as u8;
    let announced = top.leading_zeros() as usize + 1;
    announced == byte_len
}

pub fn id_bytes(id: u64) -> Vec<u8> {
    let b = id.to_be_bytes();
    let skip = b.iter().take_while(|&&x| x == 0).count();
    b[skip..].to_vec()
}

// ---------------------------------------------------------------------------------------------
// fixed-width payload codecs

pub fn ref_uint(b: &[u8]) -> Option<u64> {
    if b.len() > 8 {
        return None;
    }
    let mut a = [0u8; 8];
    a[8 - b.len()..].copy_from_slice(b);
    Some(u64::from_be_bytes(a))
}

pub fn ref_sint(b: &[u8]) -> Option<i64> {
    if b.len() > 8 {
        return None;
    }
    if b.is_empty() {
        return Some(0);
    }
    let fill = if b[0] & 0x80 != 0 { 0xFF } else { 0 };
    let mut a = [fill; 8];
    a[8 - b.len()..].copy_from_slice(b);
    Some(i64::from_be_bytes(a))
}

/// returns the f64 bit pattern
pub fn ref_float(b: &[u8]) -> Option<u64> {
    match b.len() {
        4 => {
            let f = f32::from_be_bytes([b[0], b[1], b[2], b[3]]);
            Some((f as f64).to_bits())
        }
        8 => {
            let mut a = [0u8; 8];
            a.copy_from_slice(b);
            Some(u64::from_be_bytes(a))
        }
        _ => None,
    }
}

pub fn min_uint_width(v: u64) -> usize {
    if v < 1 << 8 {
        1
    } else if v < 1 << 16 {
        2
    } else if v < 1 << 32 {
        4
    } else {
        8
    }
}

pub fn min_sint_width(v: i64) -> usize {
    if v >= -(1 << 7) && v < (1 << 7) {
        1
    } else if v >= -(1 << 15) && v < (1 << 15) {
        2
    } else if v >= -(1i64 << 31) && v < (1i64 << 31) {
        4
    } else {
        8
    }
}

/// documented decoding of a payload for the type the spec assigns
pub fn ref_decode(ty: Option<Ty>, b: &[u8]) -> Option<Payload> {
    match ty {
        None => Some(Payload::Raw(b.to_vec())),
        Some(Ty::Master) => None,
        Some(Ty::U) => ref_uint(b).map(Payload::U),
        Some(Ty::I) => ref_sint(b).map(Payload::I),
        Some(Ty::F) => ref_float(b).map(Payload::F),
        Some(Ty::S) => String::from_utf8(b.to_vec()).ok().map(Payload::S),
        Some(Ty::B) => Some(Payload::B(b.to_vec())),
    }
}

// ---------------------------------------------------------------------------------------------
// element headers

#[derive(Debug, Clone, Copy, PartialEq, Eq)]
pub enum RefSize {
    Known(u64),
    Unknown,
}

#[derive(Debug, Clone, PartialEq, Eq)]
pub enum RefHeader {
    /// header complete
    Ok { id: u64, id_len: usize, size: RefSize, size_len: usize },
    /// not enough bytes; `id` is Some iff the id bytes are complete
    Incomplete { id: Option<(u64, usize)> },
    /// first byte of id or of size is zero
    Bad,
}

pub fn ref_header(b: &[u8], off: usize) -> RefHeader {
    let b = if off <= b.len() { &b[off..] } else { &[][..] };
    if b.is_empty() {
        return RefHeader::Incomplete { id: None };
    }
    if b[0] == 0 {
        return RefHeader::Bad;
    }
    let id_len = b[0].leading_zeros() as usize + 1;
    if b.len() < id_len {
        return RefHeader::Incomplete { id: None };
    }
    let mut id = 0u64;
    for &y in &b[..id_len] {
        id = (id << 8) | y as u64;
    }
    match ref_read_vint(&b[id_len..]) {
        VintRead::NeedMore => RefHeader::Incomplete { id: Some((id, id_len)) },
        VintRead::Bad => RefHeader::Bad,
        VintRead::Ok { value, len } => {
            let size = if value == (1u64 << (7 * len)) - 1 { RefSize::Unknown } else { RefSize::Known(value) };
            RefHeader::Ok { id, id_len, size, size_len: len }
        }
    }
}

// ---------------------------------------------------------------------------------------------
// reference encoder with every encoding choice explicit, and its layout

#[derive(Debug, Clone, PartialEq, Eq)]
pub struct Lay {
    pub id: u64,
    pub is_master: bool,
    pub unknown: bool,
    pub depth: usize,
    pub parent: Option<usize>,
    pub tag_start: usize,
    pub id_end: usize,
    pub header_end: usize,
    /// end of payload (masters: end of last descendant)
    pub payload_end: usize,
    /// index into document order of nodes (pre-order)
    pub index: usize,
}

/// smallest width whose value range holds `n` without being the reserved all-ones pattern
pub fn size_min_width(n: u64) -> usize {
    (1..=8).find(|w| (n as u128) < (1u128 << (7 * w)) - 1).expect("size too large")
}

pub fn payload_bytes(p: &Payload, enc: &Enc) -> Vec<u8> {
    match p {
        Payload::U(v) => {
            if enc.pad == 255 && *v == 0 {
                return vec![];
            }
            let w = min_uint_width(*v);
            // reference encoder uses the *exact* minimal byte count 1..8, then pads
            let exact = ((64 - v.leading_zeros() as usize + 7) / 8).max(1);
            let base = if enc.pad == 0 { w } else { exact };
            let total = (base + enc.pad as usize).min(8).max(base);
            let b = v.to_be_bytes();
            b[8 - total..].to_vec()
        }
        Payload::I(v) => {
            if enc.pad == 255 && *v == 0 {
                return vec![];
            }
            let w = min_sint_width(*v);
            let exact = (1..=8).find(|n| {
                let bits = 8 * n;
                bits == 64 || (*v >= -(1i64 << (bits - 1)) && *v < (1i64 << (bits - 1)))
            }).unwrap();
            let base = if enc.pad == 0 { w } else { exact };
            let total = (base + enc.pad as usize).min(8).max(base);
            let b = v.to_be_bytes();
            b[8 - total..].to_vec()
        }
        Payload::F(bits) => {
            if enc.f32 {
                let f = f64::from_bits(*bits) as f32;
                f.to_be_bytes().to_vec()
            } else {
                bits.to_be_bytes().to_vec()
            }
        }
        Payload::S(s) => s.as_bytes().to_vec(),
        Payload::B(b) | Payload::Raw(b) => b.clone(),
    }
}

/// value is exactly representable as f32 *and* survives the f32 -> f64 widening bit-exactly
pub fn f32_exact(bits: u64) -> bool {
    let f = f64::from_bits(bits);
    let g = f as f32;
    (g as f64).to_bits() == bits
}

pub fn ref_encode(forest: &[Node]) -> (Vec<u8>, Vec<Lay>) {
    let mut out = Vec::new();
    let mut lay = Vec::new();
    for n in forest {
        enc_node(n, 0, None, 0, &mut out, &mut lay);
    }
    (out, lay)
}

fn enc_node(n: &Node, depth: usize, parent: Option<usize>, base: usize, out: &mut Vec<u8>, lay: &mut Vec<Lay>) {
    // encode this node into a temporary buffer so that sizes are known; `base` = absolute offset of out.len()==0
    let my_index = lay.len();
    let tag_start = base + out.len();
    let idb = id_bytes(n.id);
    match &n.kind {
        NodeKind::Leaf(p) => {
            let pb = payload_bytes(p, &n.enc);
            let w = if n.enc.size_w == 0 { size_min_width(pb.len() as u64) } else { n.enc.size_w as usize };
            assert!((pb.len() as u64) < (1u64 << (7 * w)) - 1, "generator must pick a width that fits (all-ones is reserved)");
            let sv = ref_vint(pb.len() as u64, w).expect("generator must pick a width that fits");
            out.extend_from_slice(&idb);
            let id_end = base + out.len();
            out.extend_from_slice(&sv);
            let header_end = base + out.len();
            out.extend_from_slice(&pb);
            lay.push(Lay {
                id: n.id,
                is_master: false,
                unknown: false,
                depth,
                parent,
                tag_start,
                id_end,
                header_end,
                payload_end: base + out.len(),
                index: my_index,
            });
        }
        NodeKind::Master(ch) => {
            lay.push(Lay {
                id: n.id,
                is_master: true,
                unknown: n.enc.unknown,
                depth,
                parent,
                tag_start,
                id_end: 0,
                header_end: 0,
                payload_end: 0,
                index: my_index,
            });
            // children into a scratch buffer at a provisional base; fix offsets afterwards
            let mut body = Vec::new();
            let mut sub = Vec::new();
            for c in ch {
                enc_node(c, depth + 1, Some(my_index), 0, &mut body, &mut sub);
            }
            let sv = if n.enc.unknown {
                let w = if n.enc.size_w == 0 { 1 } else { n.enc.size_w as usize };
                ref_vint((1u64 << (7 * w)) - 1, w).unwrap()
            } else {
                let w = if n.enc.size_w == 0 { size_min_width(body.len() as u64) } else { n.enc.size_w as usize };
                assert!((body.len() as u64) < (1u64 << (7 * w)) - 1, "generator must pick a width that fits (all-ones is reserved)");
                ref_vint(body.len() as u64, w).expect("generator must pick a width that fits")
            };
            out.extend_from_slice(&idb);
            let id_end = base + out.len();
            out.extend_from_slice(&sv);
            let header_end = base + out.len();
            let shift = header_end;
            for mut l in sub {
                l.tag_start += shift;
                l.id_end += shift;
                l.header_end += shift;
                l.payload_end += shift;
                l.index += my_index + 1;
                l.parent = Some(match l.parent {
                    Some(p) if l.depth > depth + 1 => p + my_index + 1,
                    _ => my_index,
                });
                lay.push(l);
            }
            out.extend_from_slice(&body);
            let me = &mut lay[my_index];
            me.id_end = id_end;
            me.header_end = header_end;
            me.payload_end = base + out.len();
        }
    }
}

// ---------------------------------------------------------------------------------------------
// hierarchy semantics

/// The declared path read as a pattern over the chain of open masters (outermost first).
pub fn ref_match(path: &[PathPart], chain: &[u64]) -> bool {
    match path.split_first() {
        None => chain.is_empty(),
        Some((PathPart::Id(x), rest)) => match chain.split_first() {
            Some((c, crest)) => c == x && ref_match(rest, crest),
            None => false,
        },
        Some((PathPart::Global((min, max)), rest)) => {
            let min = min.unwrap_or(0) as usize;
            let max = max.map(|m| m as usize).unwrap_or(usize::MAX).min(chain.len());
            let mut k = min;
            while k <= max {
                if ref_match(rest, &chain[k..]) {
                    return true;
                }
                k += 1;
            }
            false
        }
    }
}

/// Brute force version used to cross-check `ref_match` in unit tests: enumerate every
/// instantiation of the placeholders by a count, and compare lengths / ids literally.
pub fn ref_match_bruteforce(path: &[PathPart], chain: &[u64]) -> bool {
    fn rec(path: &[PathPart], chain: &[u64], pi: usize, ci: usize) -> bool {
        if pi == path.len() {
            return ci == chain.len();
        }
        match path[pi] {
            PathPart::Id(x) => ci < chain.len() && chain[ci] == x && rec(path, chain, pi + 1, ci + 1),
            PathPart::Global((min, max)) => {
                let min = min.unwrap_or(0) as usize;
                let max = max.map(|m| m as usize).unwrap_or(chain.len());
                for k in 0..=(chain.len() - ci) {
                    if k >= min && k <= max && rec(path, chain, pi + 1, ci + k) {
                        return true;
                    }
                }
                false
            }
        }
    }
    rec(path, chain, 0, 0)
}

/// Does element `next` end the open unknown-size master `m` (C07 rule)?
/// sibling (same declared parent path; a new instance of `m` itself counts), a new instance of
/// one of its declared ancestors, or a root element. Global elements (path with a placeholder)
/// never do.
pub fn ref_closes(spec: &SpecTable, m: u64, next: u64) -> bool {
    let Some(ne) = spec.get(next) else { return false };
    let Some(me) = spec.get(m) else { return false };
    if ne.is_global() {
        // a global element never ends an unknown-size master (unless it has the identical
        // declared path, i.e. is a declared sibling — only possible for global masters, which the
        // generators do not encode with unknown size)
        return ne.path == me.path;
    }
    if ne.is_root() {
        return true;
    }
    if ne.path == me.path {
        return true;
    }
    me.path.iter().any(|p| matches!(p, PathPart::Id(x) if *x == next))
}

#[cfg(test)]
mod tests {
    use super::*;
    use PathPart::{Global as G, Id};

    #[test]
    fn vint_basics() {
        assert_eq!(ref_vint(0, 1), Some(vec![0x80]));
        assert_eq!(ref_vint(127, 1), Some(vec![0xFF]));
        assert_eq!(ref_vint(128, 1), None);
        assert_eq!(ref_vint(128, 2), Some(vec![0x40, 0x80]));
        assert_eq!(ref_vint(200, 2), Some(vec![0x40, 0xC8]));
        assert_eq!(ref_vint((1 << 56) - 1, 8), Some(vec![1, 255, 255, 255, 255, 255, 255, 255]));
        assert_eq!(ref_vint(1 << 56, 8), None);
        assert_eq!(ref_read_vint(&[0x40, 0xC8]), VintRead::Ok { value: 200, len: 2 });
        assert_eq!(ref_read_vint(&[0x40]), VintRead::NeedMore);
        assert_eq!(ref_read_vint(&[]), VintRead::NeedMore);
        assert_eq!(ref_read_vint(&[0, 1, 2, 3, 4, 5, 6, 7, 8]), VintRead::Bad);
        for w in 1..=8usize {
            for v in [0u64, 1, 126, 127, 128, (1 << (7 * w)) - 1] {
                if let Some(e) = ref_vint(v, w) {
                    assert_eq!(e.len(), w);
                    assert_eq!(ref_read_vint(&e), VintRead::Ok { value: v, len: w });
                }
            }
        }
    }

    #[test]
    fn svint_doc_examples() {
        // examples from the crate documentation of SignedVint
        assert_eq!(ref_svint(-33, 1), Some(vec![0xDF]));
        assert_eq!(ref_svint(200, 2), Some(vec![0x40, 0xC8]));
        assert_eq!(ref_svint(-200, 2), Some(vec![0x7F, 0x38]));
        assert_eq!(ref_svint(-1, 1), Some(vec![0xFF]));
        assert_eq!(ref_svint(64, 1), None);
        assert_eq!(ref_svint(-64, 1), Some(vec![0xC0]));
        assert_eq!(ref_svint(-65, 1), None);
        for w in 1..=8usize {
            let hi = (1i128 << (7 * w - 1)) - 1;
            for v in [0i128, 1, -1, hi, -hi, -hi - 1] {
                let e = ref_svint(v as i64, w).unwrap();
                assert_eq!(e.len(), w);
                assert_eq!(ref_read_svint(&e), Some((v as i64, w)));
            }
        }
    }

    #[test]
    fn id_wellformed() {
        assert!(ref_is_wellformed_id(0x80));
        assert!(ref_is_wellformed_id(0xFF));
        assert!(!ref_is_wellformed_id(0x7F));
        assert!(!ref_is_wellformed_id(1));
        assert!(!ref_is_wellformed_id(0));
        assert!(ref_is_wellformed_id(0x4000));
        assert!(ref_is_wellformed_id(0x7FFF));
        assert!(!ref_is_wellformed_id(0x8000));
        assert!(!ref_is_wellformed_id(0x3FFF));
        assert!(ref_is_wellformed_id(0x1a45dfa3));
        assert!(ref_is_wellformed_id(0x01_00_00_00_00_00_00_00));
        assert!(!ref_is_wellformed_id(0x02_00_00_00_00_00_00_00));
        assert!(!ref_is_wellformed_id(1 << 63));
        assert!(!ref_is_wellformed_id(u64::MAX));
    }

    #[test]
    fn ints_floats() {
        assert_eq!(ref_uint(&[]), Some(0));
        assert_eq!(ref_uint(&[16, 0]), Some(4096));
        assert_eq!(ref_uint(&[0; 9]), None);
        assert_eq!(ref_sint(&[]), Some(0));
        assert_eq!(ref_sint(&[0xFF]), Some(-1));
        assert_eq!(ref_sint(&[0x80, 0]), Some(-32768));
        assert_eq!(ref_sint(&[4, 0]), Some(1024));
        assert_eq!(ref_sint(&[0x80, 0, 0, 0, 0, 0, 0, 0]), Some(i64::MIN));
        assert_eq!(ref_sint(&[0; 9]), None);
        assert_eq!(ref_float(&1.5f32.to_be_bytes()), Some(1.5f64.to_bits()));
        assert_eq!(ref_float(&1.5f64.to_be_bytes()), Some(1.5f64.to_bits()));
        assert_eq!(ref_float(&[]), None);
        assert_eq!(ref_float(&[0; 5]), None);
    }

    #[test]
    fn header() {
        assert_eq!(
            ref_header(&[0x1a, 0x45, 0xdf, 0xa3, 0x80], 0),
            RefHeader::Ok { id: 0x1a45dfa3, id_len: 4, size: RefSize::Known(0), size_len: 1 }
        );
        assert_eq!(ref_header(&[0x1a, 0x45, 0xdf], 0), RefHeader::Incomplete { id: None });
        assert_eq!(ref_header(&[0x1a, 0x45, 0xdf, 0xa3], 0), RefHeader::Incomplete { id: Some((0x1a45dfa3, 4)) });
        assert_eq!(ref_header(&[0x81, 0xFF], 0), RefHeader::Ok { id: 0x81, id_len: 1, size: RefSize::Unknown, size_len: 1 });
        assert_eq!(ref_header(&[0x81, 0x40, 0x7F], 0), RefHeader::Ok { id: 0x81, id_len: 1, size: RefSize::Known(127), size_len: 2 });
        assert_eq!(ref_header(&[0x81, 0x7F, 0xFF], 0), RefHeader::Ok { id: 0x81, id_len: 1, size: RefSize::Unknown, size_len: 2 });
        assert_eq!(ref_header(&[0x00, 0x81], 0), RefHeader::Bad);
        assert_eq!(ref_header(&[0x81, 0x00], 0), RefHeader::Bad);
        assert_eq!(ref_header(&[0x81], 1), RefHeader::Incomplete { id: None });
    }

    #[test]
    fn match_vs_bruteforce() {
        // all paths of length <= 4 over {Id(1),Id(2),G(0,1),G(1,2),G(None,None),G(2,None)} and all chains of length <= 5 over {1,2,3}
        let parts = [Id(1), Id(2), G((Some(0), Some(1))), G((Some(1), Some(2))), G((None, None)), G((Some(2), None)), G((None, Some(1)))];
        let mut n = 0u64;
        let mut accepted = 0u64;
        for plen in 0..=4usize {
            let mut pidx = vec![0usize; plen];
            loop {
                let path: Vec<PathPart> = pidx.iter().map(|&i| parts[i]).collect();
                for clen in 0..=5usize {
                    let mut cidx = vec![0u64; clen];
                    loop {
                        let chain: Vec<u64> = cidx.iter().map(|&c| c + 1).collect();
                        let a = ref_match(&path, &chain);
                        let b = ref_match_bruteforce(&path, &chain);
                        assert_eq!(a, b, "path {:?} chain {:?}", path, chain);
                        n += 1;
                        accepted += a as u64;
                        // next chain
                        let mut k = 0;
                        while k < clen {
                            cidx[k] += 1;
                            if cidx[k] < 3 {
                                break;
                            }
                            cidx[k] = 0;
                            k += 1;
                        }
                        if k == clen {
                            break;
                        }
                    }
                }
                let mut k = 0;
                while k < plen {
                    pidx[k] += 1;
                    if pidx[k] < parts.len() {
                        break;
                    }
                    pidx[k] = 0;
                    k += 1;
                }
                if k == plen {
                    break;
                }
            }
        }
        assert!(n > 500_000 && accepted > 1000, "n={} accepted={}", n, accepted);
        // the traps named in DESIGN 6 (D11)
        assert!(ref_match(&[Id(1), G((Some(1), Some(1))), Id(2)], &[1, 9, 2]));
        assert!(ref_match(&[G((Some(0), None)), Id(5)], &[5, 5]));
        assert!(!ref_match(&[Id(1)], &[]));
        assert!(ref_match(&[], &[]));
        assert!(!ref_match(&[], &[1]));
        assert!(ref_match(&[G((Some(1), None))], &[3]));
        assert!(!ref_match(&[G((Some(1), None))], &[]));
    }

    #[test]
    fn encode_layout() {
        let doc = vec![Node::master(
            0x1a45dfa3,
            vec![Node::leaf(0x4286, Payload::U(1)), Node::master(0xa0, vec![Node::leaf(0xa1, Payload::B(vec![1, 2, 3]))])],
        )];
        let (b, lay) = ref_encode(&doc);
        assert_eq!(b, vec![0x1a, 0x45, 0xdf, 0xa3, 0x8b, 0x42, 0x86, 0x81, 0x01, 0xa0, 0x85, 0xa1, 0x83, 1, 2, 3]);
        assert_eq!(lay.len(), 4);
        assert_eq!((lay[0].tag_start, lay[0].id_end, lay[0].header_end, lay[0].payload_end), (0, 4, 5, 16));
        assert_eq!((lay[1].tag_start, lay[1].header_end, lay[1].payload_end, lay[1].parent), (5, 8, 9, Some(0)));
        assert_eq!((lay[2].tag_start, lay[2].header_end, lay[2].payload_end, lay[2].parent), (9, 11, 16, Some(0)));
        assert_eq!((lay[3].tag_start, lay[3].header_end, lay[3].payload_end, lay[3].parent, lay[3].depth), (11, 13, 16, Some(2), 2));
        // reserved all-ones is never produced for a known size
        let doc = vec![Node::leaf(0xa1, Payload::B(vec![0; 127]))];
        let (b, _) = ref_encode(&doc);
        assert_eq!(&b[..3], &[0xa1, 0x40, 0x7f]);
    }
}
