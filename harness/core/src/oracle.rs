//! Validity oracles over what an iterator emitted, judged against the input bytes with the
//! reference header parser and the reference hierarchy semantics only.

use crate::drive::*;
use crate::model::*;
use crate::refmodel::*;

#[derive(Default, Debug, Clone)]
pub struct MirrorStats {
    pub checked_items: usize,
    pub masters: usize,
    pub fulls: usize,
    pub implied_ends: usize,
    pub zero_id_raw: usize,
}

fn header_at(b: &[u8], o: usize, want_id: u64, tolerate_ids: bool, st: &mut MirrorStats) -> Result<(usize, RefSize), String> {
    match ref_header(b, o) {
        RefHeader::Ok { id, id_len, size, size_len } => {
            if id != want_id {
                return Err(format!("item with id {:#x} reported at offset {}, but the element at that offset has id {:#x}", want_id, o, id));
            }
            Ok((o + id_len + size_len, size))
        }
        RefHeader::Bad if tolerate_ids && want_id == 0 && b.get(o) == Some(&0) => {
            // a 0x00 byte read as "id 0" when unknown ids are tolerated: not an EBML id at all; tolerated as its own class
            st.zero_id_raw += 1;
            match ref_read_vint(&b[o + 1..]) {
                VintRead::Ok { value, len } => {
                    let size = if value == (1u64 << (7 * len)) - 1 { RefSize::Unknown } else { RefSize::Known(value) };
                    Ok((o + 1 + len, size))
                }
                _ => Err(format!("item with id 0 at offset {} but no size field follows", o)),
            }
        }
        other => Err(format!("item with id {:#x} reported at offset {}, but no complete element header is there ({:?})", want_id, o, other)),
    }
}

/// C03: every emitted tag mirrors the bytes at its offset; tags tile the stream.
/// `obs` = successful prefix (+ optional trailing error, ignored). `first_offset` = expected offset of the first item (0).
pub fn check_mirror(spec: &SpecTable, b: &[u8], obs: &[Obs], tolerate: u8, strict_hier: bool) -> Result<MirrorStats, String> {
    let mut st = MirrorStats::default();
    let tol_ids = tolerate & TOL_IDS != 0;
    let mut cursor = 0usize;
    let mut started = false;
    // explicit stack: (id, reported start offset)
    let mut stack: Vec<(u64, usize)> = Vec::new();
    let mut implied: Option<Vec<u64>> = None; // innermost last
    for (k, o) in obs.iter().enumerate() {
        let Obs::Item(item, off) = o else { break };
        match item {
            Flat::End(id) => {
                match stack.last() {
                    Some((sid, soff)) if sid == id => {
                        if off != soff {
                            return Err(format!("item {}: End of {:#x} reports offset {}, its Start was reported at {}", k, id, off, soff));
                        }
                        stack.pop();
                    }
                    _ => {
                        // implied ancestor of a mid-document start (strict hierarchy mode only)
                        let ok = strict_hier && stack.is_empty() && implied.as_ref().and_then(|v| v.last()).map(|x| x == id).unwrap_or(false);
                        if ok {
                            implied.as_mut().unwrap().pop();
                            st.implied_ends += 1;
                            if *off != 0 {
                                return Err(format!("item {}: End of implied ancestor {:#x} reports offset {}, expected 0", k, id, off));
                            }
                        } else {
                            return Err(format!(
                                "item {}: End of {:#x} at offset {} matches neither the innermost open master {:x?} nor an implied ancestor {:x?}",
                                k,
                                id,
                                off,
                                stack.last(),
                                implied
                            ));
                        }
                    }
                }
            }
            Flat::Start(id) | Flat::Leaf(id, _) | Flat::Full(id, _) => {
                if !started {
                    started = true;
                    if *off != 0 {
                        return Err(format!("first item {:?} reported at offset {}, but the input starts at 0 (bytes skipped)", item, off));
                    }
                }
                if *off != cursor {
                    return Err(format!(
                        "item {} ({:?}) reported at offset {}, but the previous tag ended at {} ({} byte(s) {})",
                        k,
                        item,
                        off,
                        cursor,
                        off.abs_diff(cursor),
                        if *off > cursor { "skipped" } else { "read twice" }
                    ));
                }
                if strict_hier && implied.is_none() {
                    if let Some(e) = spec.get(*id) {
                        if !e.is_global() {
                            implied = Some(e.path.iter().map(|p| match p {
                                PathPart::Id(x) => *x,
                                _ => unreachable!(),
                            }).collect());
                        }
                    }
                }
                cursor = walk_item(spec, b, item, *off, tol_ids, &mut st)?;
                if let Flat::Start(id) = item {
                    stack.push((*id, *off));
                }
            }
        }
    }
    Ok(st)
}

/// checks one non-End item located at `o`; returns the offset where the next non-End item must start
fn walk_item(spec: &SpecTable, b: &[u8], item: &Flat, o: usize, tol_ids: bool, st: &mut MirrorStats) -> Result<usize, String> {
    match item {
        Flat::Start(id) => {
            let (he, _) = header_at(b, o, *id, tol_ids, st)?;
            st.masters += 1;
            st.checked_items += 1;
            Ok(he)
        }
        Flat::Leaf(id, p) => {
            let (he, size) = header_at(b, o, *id, tol_ids, st)?;
            let RefSize::Known(n) = size else {
                return Err(format!("non-master item {:#x} at offset {} has an unknown-size header", id, o));
            };
            let n = n as usize;
            if he + n > b.len() {
                return Err(format!("item {:#x} at offset {} declares {} payload bytes but only {} remain in the input", id, o, n, b.len() - he));
            }
            let pay = &b[he..he + n];
            let ty = spec.ty(*id);
            let want = ref_decode(ty, pay);
            match (&want, p) {
                (Some(w), got) if w == got => {}
                _ => {
                    return Err(format!(
                        "item {:#x} at offset {} (type {:?}) has value {:?}, but the payload bytes {} decode to {:?}",
                        id,
                        o,
                        ty,
                        p,
                        short_bytes(pay),
                        want
                    ))
                }
            }
            st.checked_items += 1;
            Ok(he + n)
        }
        Flat::Full(id, ch) => {
            let (he, _) = header_at(b, o, *id, tol_ids, st)?;
            st.masters += 1;
            st.fulls += 1;
            st.checked_items += 1;
            let mut c = he;
            for child in ch {
                match child {
                    Flat::Start(_) | Flat::End(_) => return Err(format!("Full master {:#x} at {} contains a bare {:?}", id, o, child)),
                    _ => {
                        c = walk_item(spec, b, child, c, tol_ids, st)
                            .map_err(|e| format!("inside Full master {:#x}@{}: {}", id, o, e))?;
                    }
                }
            }
            Ok(c)
        }
        Flat::End(_) => unreachable!(),
    }
}

// ---------------------------------------------------------------------------------------------

#[derive(Default, Debug, Clone)]
pub struct StructStats {
    pub max_depth: usize,
    pub implied: usize,
    pub unknown_masters: usize,
    pub known_masters: usize,
    pub position_fixed: bool,
    pub items: usize,
}

struct Open {
    id: u64,
    /// byte offset one past the master's content, None = unknown size or implied
    end: Option<usize>,
    data_start: usize,
    implied: bool,
}

/// C06: strict mode emits only well-nested, hierarchy-valid, size-contained sequences.
/// `ended` = the parse ended with None (not with an error).
pub fn check_structure(spec: &SpecTable, b: &[u8], obs: &[Obs], ended: bool) -> Result<StructStats, String> {
    let mut st = StructStats::default();
    let mut stack: Vec<Open> = Vec::new();
    let mut fixed = false;
    // end position of the last non-End item (header end for masters)
    let mut cursor = 0usize;
    for (k, o) in obs.iter().enumerate() {
        let Obs::Item(item, off) = o else { break };
        st.items += 1;
        match item {
            Flat::Full(..) => return Err(format!("item {}: Full item although no tag was requested as buffered", k)),
            Flat::End(id) => {
                let Some(top) = stack.pop() else {
                    return Err(format!("item {}: End of {:#x} with no master open", k, id));
                };
                if top.id != *id {
                    return Err(format!("item {}: End of {:#x} while the innermost open master is {:#x}", k, id, top.id));
                }
                if let Some(e) = top.end {
                    // emitted exactly when the range is exhausted: not before (unless the input itself is exhausted)
                    if cursor < e && cursor < b.len() {
                        return Err(format!(
                            "item {}: End of known-size master {:#x} (content ends at {}) emitted although only {} bytes were consumed and input remains",
                            k, id, e, cursor
                        ));
                    }
                }
            }
            Flat::Start(id) | Flat::Leaf(id, _) => {
                let Some(e) = spec.get(*id) else {
                    return Err(format!("item {}: id {:#x} is not in the specification (strict mode must not emit raw tags)", k, id));
                };
                if matches!(item, Flat::Leaf(_, Payload::Raw(_))) {
                    return Err(format!("item {}: raw tag {:#x} emitted in strict mode", k, id));
                }
                if !fixed && !e.is_global() {
                    // the first non-global element fixes the position: its declared path is the implied chain
                    fixed = true;
                    st.position_fixed = true;
                    if stack.is_empty() {
                        for p in &e.path {
                            if let PathPart::Id(x) = p {
                                stack.push(Open { id: *x, end: None, data_start: 0, implied: true });
                                st.implied += 1;
                            }
                        }
                    }
                } else if fixed {
                    let chain: Vec<u64> = stack.iter().map(|s| s.id).collect();
                    if !ref_match(&e.path, &chain) {
                        return Err(format!(
                            "item {}: element {:#x} (declared path {}) emitted under the open chain {:x?}, which its path does not allow",
                            k,
                            id,
                            render_path(&e.path),
                            chain
                        ));
                    }
                }
                // extents from the bytes at the reported offset
                let (he, size) = match ref_header(b, *off) {
                    RefHeader::Ok { id: hid, id_len, size, size_len } if hid == *id => (*off + id_len + size_len, size),
                    other => return Err(format!("item {}: {:#x} reported at offset {} but the header there is {:?}", k, id, off, other)),
                };
                if let Some(top) = stack.last() {
                    if *off < top.data_start {
                        return Err(format!("item {}: {:#x} at offset {} lies before the content start {} of its parent {:#x}", k, id, off, top.data_start, top.id));
                    }
                }
                let elem_end = match size {
                    RefSize::Known(n) => Some(he + n as usize),
                    RefSize::Unknown => None,
                };
                for s in stack.iter() {
                    if let Some(pe) = s.end {
                        if *off >= pe {
                            return Err(format!(
                                "item {}: {:#x} at offset {} lies at or beyond the end ({}) of the enclosing known-size master {:#x}, whose End was not emitted first",
                                k, id, off, pe, s.id
                            ));
                        }
                        let my_end = elem_end.unwrap_or(he);
                        if my_end > pe {
                            return Err(format!(
                                "item {}: {:#x} at offset {} extends to {} beyond the end ({}) of the enclosing known-size master {:#x}",
                                k, id, off, my_end, pe, s.id
                            ));
                        }
                    }
                }
                match item {
                    Flat::Start(_) => {
                        if e.ty != Ty::Master {
                            return Err(format!("item {}: Start for non-master {:#x}", k, id));
                        }
                        stack.push(Open { id: *id, end: elem_end, data_start: he, implied: false });
                        if elem_end.is_some() {
                            st.known_masters += 1;
                        } else {
                            st.unknown_masters += 1;
                        }
                        cursor = he;
                    }
                    _ => {
                        cursor = elem_end.unwrap_or(he);
                    }
                }
                st.max_depth = st.max_depth.max(stack.len());
            }
        }
    }
    if ended && !stack.is_empty() {
        let open: Vec<String> = stack.iter().map(|s| format!("{:#x}{}", s.id, if s.implied { "(implied)" } else { "" })).collect();
        return Err(format!("the iterator ended (None) while masters are still open without an End: {:?}", open));
    }
    Ok(st)
}
