//! Sharded, deterministic runner: proptest `TestRunner` per shard over choice tapes, indexed
//! enumerations, statistics, evidence, replay files and known findings.

use std::cell::RefCell;
use std::collections::{BTreeMap, HashSet};
use std::hash::{Hash, Hasher};
use std::panic::{catch_unwind, AssertUnwindSafe};
use std::path::{Path, PathBuf};
use std::sync::atomic::{AtomicBool, Ordering};
use std::sync::Mutex;
use std::time::Instant;

use proptest::strategy::{Strategy, ValueTree};
use proptest::test_runner::{Config, RngAlgorithm, TestCaseError, TestError, TestRng, TestRunner};
use serde_json::{json, Value};

#[derive(Clone, Debug, PartialEq, Eq)]
pub enum Input {
    Tape(Vec<u16>),
    Args(Vec<u64>),
    Bytes(Vec<u8>),
}

impl Input {
    pub fn to_json(&self) -> Value {
        match self {
            Input::Tape(t) => json!({ "tape": t }),
            Input::Args(a) => json!({ "args": a.iter().map(|x| x.to_string()).collect::<Vec<_>>() }),
            Input::Bytes(b) => json!({ "bytes_hex": crate::model::hex(b) }),
        }
    }
    pub fn from_json(v: &Value) -> Option<Input> {
        if let Some(t) = v.get("tape") {
            return Some(Input::Tape(t.as_array()?.iter().map(|x| x.as_u64().unwrap_or(0) as u16).collect()));
        }
        if let Some(a) = v.get("args") {
            return Some(Input::Args(
                a.as_array()?
                    .iter()
                    .map(|x| match x {
                        Value::String(s) => s.parse::<u64>().unwrap_or(0),
                        other => other.as_u64().unwrap_or(0),
                    })
                    .collect(),
            ));
        }
        if let Some(h) = v.get("bytes_hex") {
            let s = h.as_str()?;
            let b: Vec<u8> = (0..s.len() / 2).map(|i| u8::from_str_radix(&s[2 * i..2 * i + 2], 16).unwrap_or(0)).collect();
            return Some(Input::Bytes(b));
        }
        None
    }
    pub fn tape(&self) -> &[u16] {
        match self {
            Input::Tape(t) => t,
            _ => &[],
        }
    }
    pub fn args(&self) -> &[u64] {
        match self {
            Input::Args(a) => a,
            _ => &[],
        }
    }
}

/// Per-case record filled in by the property.
#[derive(Default)]
pub struct Case {
    pub labels: Vec<&'static str>,
    /// weighted labels (block cases)
    pub labeln: Vec<(&'static str, u64)>,
    pub excluded: Vec<&'static str>,
    pub nontrivial: bool,
    key: Option<u64>,
    pub want_sample: bool,
    pub sample: Option<String>,
    /// number of individual oracle comparisons made in this case
    pub checks: u64,
    /// replay mode: no tolerance for open-finding classes
    pub strict: bool,
    /// the case was skipped entirely (falls into an excluded class); not counted as an evaluation
    pub skipped: bool,
    /// a case may cover a block of inputs (enumerations): number of inputs tried (0 = 1)
    pub units: u64,
    /// of which non-trivial (only used when units > 0)
    pub nontrivial_units: u64,
}

impl Case {
    pub fn label(&mut self, l: &'static str) {
        if !self.labels.contains(&l) {
            self.labels.push(l);
        }
    }
    pub fn label_n(&mut self, l: &'static str, n: u64) {
        if n == 0 {
            return;
        }
        if let Some(e) = self.labeln.iter_mut().find(|e| e.0 == l) {
            e.1 += n;
        } else {
            self.labeln.push((l, n));
        }
    }
    pub fn label_if(&mut self, c: bool, l: &'static str) {
        if c {
            self.label(l);
        }
    }
    pub fn exclude(&mut self, l: &'static str) {
        self.excluded.push(l);
    }
    pub fn key<H: Hash + ?Sized>(&mut self, h: &H) {
        let mut s = std::collections::hash_map::DefaultHasher::new();
        if let Some(k) = self.key {
            k.hash(&mut s);
        }
        h.hash(&mut s);
        self.key = Some(s.finish());
    }
    pub fn sample_with(&mut self, f: impl FnOnce() -> String) {
        if self.want_sample && self.sample.is_none() {
            let mut s = f();
            if s.len() > 2400 {
                let mut cut = 2400;
                while !s.is_char_boundary(cut) {
                    cut -= 1;
                }
                s.truncate(cut);
                s.push('…');
            }
            self.sample = Some(s);
        }
    }
}

/// generous stacks for the shard threads: recursion in the code under test must not abort the harness
pub const SHARD_STACK: usize = 256 << 20;

pub type StageFn = fn(&Input, &mut Case) -> Result<(), String>;

#[derive(Clone, Copy)]
pub struct Stage {
    pub name: &'static str,
    pub f: StageFn,
}

#[derive(Default, Clone)]
pub struct StageStats {
    pub evaluations: u64,
    pub skipped: u64,
    pub nontrivial_total: u64,
    pub nontrivial_keys: HashSet<u64>,
    /// for enumerations whose inputs are distinct by construction
    pub nontrivial_counted: u64,
    /// block cases with a key: key -> non-trivial units (distinct blocks only count once)
    pub unit_keys: std::collections::HashMap<u64, u64>,
    pub labels: BTreeMap<&'static str, u64>,
    pub excluded: BTreeMap<&'static str, u64>,
    pub samples: Vec<String>,
    pub checks: u64,
    pub exhaustive: bool,
    pub kind: &'static str,
    pub wall_s: f64,
}

impl StageStats {
    fn absorb(&mut self, input: &Input, c: Case, by_construction: bool) {
        if c.skipped {
            self.skipped += 1;
            for e in c.excluded {
                *self.excluded.entry(e).or_default() += 1;
            }
            return;
        }
        if c.units > 0 {
            self.evaluations += c.units;
            self.checks += c.checks;
            self.nontrivial_total += c.nontrivial_units;
            match c.key {
                Some(k) => {
                    self.unit_keys.insert(k, c.nontrivial_units);
                }
                None => self.nontrivial_counted += c.nontrivial_units,
            }
            for e in &c.excluded {
                *self.excluded.entry(e).or_default() += 1;
            }
            // plain labels of a block case describe every unit in it
            for l in &c.labels {
                *self.labels.entry(l).or_default() += c.units;
            }
            for (l, n) in &c.labeln {
                *self.labels.entry(l).or_default() += n;
            }
            if let Some(s) = c.sample {
                if self.samples.len() < 4 {
                    self.samples.push(s);
                }
            }
            return;
        }
        for (l, n) in &c.labeln {
            *self.labels.entry(l).or_default() += n;
        }
        self.evaluations += 1;
        self.checks += c.checks;
        for l in &c.labels {
            *self.labels.entry(l).or_default() += 1;
        }
        for e in &c.excluded {
            *self.excluded.entry(e).or_default() += 1;
        }
        if c.nontrivial {
            self.nontrivial_total += 1;
            if by_construction {
                self.nontrivial_counted += 1;
            } else {
                let k = c.key.unwrap_or_else(|| {
                    let mut s = std::collections::hash_map::DefaultHasher::new();
                    match input {
                        Input::Tape(t) => t.hash(&mut s),
                        Input::Args(a) => a.hash(&mut s),
                        Input::Bytes(b) => b.hash(&mut s),
                    }
                    s.finish()
                });
                self.nontrivial_keys.insert(k);
            }
        }
        if let Some(s) = c.sample {
            if self.samples.len() < 4 {
                self.samples.push(s);
            }
        }
    }
    fn merge(&mut self, o: StageStats) {
        self.evaluations += o.evaluations;
        self.skipped += o.skipped;
        self.nontrivial_total += o.nontrivial_total;
        self.nontrivial_counted += o.nontrivial_counted;
        self.nontrivial_keys.extend(o.nontrivial_keys);
        self.unit_keys.extend(o.unit_keys);
        for (k, v) in o.labels {
            *self.labels.entry(k).or_default() += v;
        }
        for (k, v) in o.excluded {
            *self.excluded.entry(k).or_default() += v;
        }
        for s in o.samples {
            if self.samples.len() < 4 {
                self.samples.push(s);
            }
        }
        self.checks += o.checks;
    }
    pub fn distinct_nontrivial(&self) -> u64 {
        self.nontrivial_keys.len() as u64 + self.nontrivial_counted + self.unit_keys.values().sum::<u64>()
    }
    pub fn label(&self, l: &str) -> u64 {
        self.labels.get(l).copied().unwrap_or(0)
    }
}

#[derive(Clone, Debug)]
pub struct Failure {
    pub stage: &'static str,
    pub input: Input,
    pub message: String,
}

#[derive(Clone, Copy, PartialEq, Eq, Debug)]
pub enum Tier {
    Quick,
    Thorough,
}

pub struct KnownFinding {
    pub open: bool,
    pub property: String,
    pub replay: Option<String>,
    pub text: String,
}

pub struct RunCtx {
    pub property: &'static str,
    pub tier: Tier,
    pub seed: u64,
    pub threads: usize,
    pub root: PathBuf,
    pub stages: Vec<(&'static str, StageStats)>,
    pub failures: Vec<Failure>,
    pub known_lines: Vec<String>,
    pub inconclusive: Vec<String>,
    pub notes: Vec<String>,
    pub fuzz: Option<Value>,
    pub start: Instant,
    pub max_shrink_iters: u32,
}

thread_local! {
    static LAST_PANIC: RefCell<Option<String>> = RefCell::new(None);
}

pub fn install_quiet_panic_hook() {
    std::panic::set_hook(Box::new(|info| {
        let msg = if let Some(s) = info.payload().downcast_ref::<&str>() {
            s.to_string()
        } else if let Some(s) = info.payload().downcast_ref::<String>() {
            s.clone()
        } else {
            "<non-string panic>".to_string()
        };
        let loc = info.location().map(|l| format!("{}:{}", l.file(), l.line())).unwrap_or_default();
        LAST_PANIC.with(|p| *p.borrow_mut() = Some(format!("{} at {}", msg, loc)));
    }));
}

/// Run a closure over code under test; a panic becomes Err(message).
pub fn guarded<R>(f: impl FnOnce() -> R) -> Result<R, String> {
    match catch_unwind(AssertUnwindSafe(f)) {
        Ok(r) => Ok(r),
        Err(_) => Err(LAST_PANIC.with(|p| p.borrow_mut().take()).unwrap_or_else(|| "<panic>".into())),
    }
}

fn run_stage_fn(stage: &Stage, input: &Input, case: &mut Case) -> Result<(), String> {
    match catch_unwind(AssertUnwindSafe(|| (stage.f)(input, case))) {
        Ok(r) => r,
        Err(_) => {
            let m = LAST_PANIC.with(|p| p.borrow_mut().take()).unwrap_or_else(|| "<panic>".into());
            Err(format!("PANIC escaped the case function: {}", m))
        }
    }
}

fn shard_seed(seed: u64, property: &str, stage: &str, shard: usize) -> [u8; 32] {
    // splitmix-style expansion of (seed, property, stage, shard) — a pure function, no clock
    let mut h: u64 = 0x9E3779B97F4A7C15 ^ seed.wrapping_mul(0xD1342543DE82EF95);
    for b in property.bytes().chain([0u8]).chain(stage.bytes()) {
        h = (h ^ b as u64).wrapping_mul(0x100000001B3);
    }
    h ^= (shard as u64).wrapping_mul(0xBF58476D1CE4E5B9);
    let mut out = [0u8; 32];
    for i in 0..4 {
        h = h.wrapping_add(0x9E3779B97F4A7C15);
        let mut z = h;
        z = (z ^ (z >> 30)).wrapping_mul(0xBF58476D1CE4E5B9);
        z = (z ^ (z >> 27)).wrapping_mul(0x94D049BB133111EB);
        z ^= z >> 31;
        out[i * 8..i * 8 + 8].copy_from_slice(&z.to_le_bytes());
    }
    out
}

impl RunCtx {
    pub fn new(property: &'static str, tier: Tier, seed: u64, root: PathBuf) -> Self {
        let threads = std::env::var("VERIF_THREADS").ok().and_then(|s| s.parse().ok()).unwrap_or(16usize).max(1);
        RunCtx {
            property,
            tier,
            seed,
            threads,
            root,
            stages: Vec::new(),
            failures: Vec::new(),
            known_lines: Vec::new(),
            inconclusive: Vec::new(),
            notes: Vec::new(),
            fuzz: None,
            start: Instant::now(),
            max_shrink_iters: 3000,
        }
    }

    pub fn quick(&self) -> bool {
        self.tier == Tier::Quick
    }

    pub fn pick<T>(&self, quick: T, thorough: T) -> T {
        if self.quick() {
            quick
        } else {
            thorough
        }
    }

    fn stats_mut(&mut self, name: &'static str) -> &mut StageStats {
        if let Some(i) = self.stages.iter().position(|(n, _)| *n == name) {
            &mut self.stages[i].1
        } else {
            self.stages.push((name, StageStats::default()));
            &mut self.stages.last_mut().unwrap().1
        }
    }

    pub fn stats(&self, name: &str) -> Option<&StageStats> {
        self.stages.iter().find(|(n, _)| *n == name).map(|(_, s)| s)
    }

    pub fn has_failure(&self) -> bool {
        !self.failures.is_empty()
    }

    /// proptest-driven stage over choice tapes.
    pub fn run_pt(&mut self, stage: Stage, cases: u64, tape_len: (usize, usize)) {
        if self.has_failure() {
            return;
        }
        let t0 = Instant::now();
        let threads = self.threads.min(cases.max(1) as usize);
        let per = (cases + threads as u64 - 1) / threads as u64;
        let abort = AtomicBool::new(false);
        let results: Mutex<Vec<(usize, StageStats, Option<Failure>)>> = Mutex::new(Vec::new());
        let property = self.property;
        let seed = self.seed;
        let max_shrink = self.max_shrink_iters;
        std::thread::scope(|s| {
            for shard in 0..threads {
                let abort = &abort;
                let results = &results;
                std::thread::Builder::new().stack_size(SHARD_STACK).spawn_scoped(s, move || {
                    let stats = RefCell::new(StageStats::default());
                    let failed = std::cell::Cell::new(false);
                    let cfg = Config {
                        cases: per as u32,
                        failure_persistence: None,
                        max_shrink_iters: max_shrink,
                        max_shrink_time: 0,
                        verbose: 0,
                        ..Config::default()
                    };
                    let rng = TestRng::from_seed(RngAlgorithm::ChaCha, &shard_seed(seed, property, stage.name, shard));
                    let mut runner = TestRunner::new_with_rng(cfg, rng);
                    let strat = proptest::collection::vec(proptest::num::u16::ANY, tape_len.0..=tape_len.1);
                    let sample_budget = std::cell::Cell::new(2usize);
                    let res = runner.run(&strat, |tape| {
                        if !failed.get() && abort.load(Ordering::Relaxed) {
                            return Ok(());
                        }
                        let input = Input::Tape(tape);
                        let mut case = Case::default();
                        case.want_sample = !failed.get() && sample_budget.get() > 0;
                        let t_case = Instant::now();
                        let r = run_stage_fn(&stage, &input, &mut case);
                        if let Ok(ms) = std::env::var("EBV_SLOW_MS") {
                            let el = t_case.elapsed().as_millis();
                            if el > ms.parse::<u128>().unwrap_or(1000) {
                                eprintln!("SLOW {} ms stage {} input {}", el, stage.name, input.to_json());
                            }
                        }
                        match r {
                            Ok(()) => {
                                if !failed.get() {
                                    if case.sample.is_some() && (case.nontrivial || case.nontrivial_units > 0) {
                                        sample_budget.set(sample_budget.get() - 1);
                                    } else {
                                        case.sample = None;
                                    }
                                    stats.borrow_mut().absorb(&input, case, false);
                                }
                                Ok(())
                            }
                            Err(m) => {
                                if !failed.get() {
                                    failed.set(true);
                                    stats.borrow_mut().evaluations += 1;
                                    abort.store(true, Ordering::Relaxed);
                                }
                                Err(TestCaseError::fail(m))
                            }
                        }
                    });
                    let failure = match res {
                        Ok(()) => None,
                        Err(TestError::Fail(reason, tape)) => {
                            Some(Failure { stage: stage.name, input: Input::Tape(tape), message: reason.message().to_string() })
                        }
                        Err(TestError::Abort(reason)) => Some(Failure {
                            stage: stage.name,
                            input: Input::Tape(vec![]),
                            message: format!("proptest aborted: {}", reason.message()),
                        }),
                    };
                    results.lock().unwrap().push((shard, stats.into_inner(), failure));
                }).expect("spawn shard");
            }
        });
        let mut res = results.into_inner().unwrap();
        res.sort_by_key(|r| r.0);
        let mut merged = StageStats::default();
        merged.kind = "proptest";
        let mut first_fail = None;
        for (_, st, f) in res {
            merged.merge(st);
            if first_fail.is_none() {
                first_fail = f;
            }
        }
        let s = self.stats_mut(stage.name);
        let kind = merged.kind;
        s.merge(merged);
        s.kind = kind;
        s.wall_s += t0.elapsed().as_secs_f64();
        if let Some(f) = first_fail {
            self.failures.push(f);
        }
    }

    /// enumeration stage: inputs `make(0..n)`; distinct by construction when `make` is injective.
    pub fn run_indexed(&mut self, stage: Stage, n: u64, exhaustive: bool, make: &(dyn Fn(u64) -> Input + Sync)) {
        if self.has_failure() {
            return;
        }
        let t0 = Instant::now();
        let threads = self.threads.min(n.max(1) as usize);
        let abort = AtomicBool::new(false);
        let results: Mutex<Vec<(StageStats, Option<(u64, Failure)>)>> = Mutex::new(Vec::new());
        std::thread::scope(|s| {
            for shard in 0..threads {
                let abort = &abort;
                let results = &results;
                std::thread::Builder::new().stack_size(SHARD_STACK).spawn_scoped(s, move || {
                    let mut stats = StageStats::default();
                    let mut failure = None;
                    let mut sample_budget = if shard == 0 { 3usize } else { 0 };
                    let mut i = shard as u64;
                    while i < n {
                        if abort.load(Ordering::Relaxed) {
                            break;
                        }
                        let input = make(i);
                        let mut case = Case::default();
                        case.want_sample = sample_budget > 0;
                        match run_stage_fn(&stage, &input, &mut case) {
                            Ok(()) => {
                                if case.sample.is_some() && (case.nontrivial || case.nontrivial_units > 0) {
                                    sample_budget -= 1;
                                } else {
                                    case.sample = None;
                                }
                                stats.absorb(&input, case, true);
                            }
                            Err(m) => {
                                stats.evaluations += 1;
                                failure = Some((i, Failure { stage: stage.name, input, message: m }));
                                abort.store(true, Ordering::Relaxed);
                                break;
                            }
                        }
                        i += threads as u64;
                    }
                    results.lock().unwrap().push((stats, failure));
                }).expect("spawn shard");
            }
        });
        let res = results.into_inner().unwrap();
        let mut merged = StageStats::default();
        let mut best: Option<(u64, Failure)> = None;
        for (st, f) in res {
            merged.merge(st);
            if let Some((i, f)) = f {
                if best.as_ref().map(|b| i < b.0).unwrap_or(true) {
                    best = Some((i, f));
                }
            }
        }
        let failed = best.is_some();
        let s = self.stats_mut(stage.name);
        s.merge(merged);
        s.kind = "enumeration";
        s.wall_s += t0.elapsed().as_secs_f64();
        s.exhaustive = exhaustive && !failed;
        if let Some((_, f)) = best {
            self.failures.push(f);
        }
    }

    /// run a single explicit input (goldens, findings)
    pub fn run_one(&mut self, stage: Stage, input: Input) {
        let mut case = Case::default();
        case.want_sample = true;
        match run_stage_fn(&stage, &input, &mut case) {
            Ok(()) => {
                self.stats_mut(stage.name).absorb(&input, case, false);
            }
            Err(m) => {
                self.stats_mut(stage.name).evaluations += 1;
                self.failures.push(Failure { stage: stage.name, input, message: m });
            }
        }
    }

    /// health gate: a label the property cares about must make up at least `min_ppm` / 1e6 of the stage's cases
    pub fn require_label(&mut self, stage: &'static str, label: &'static str, min_ppm: u64) {
        if self.has_failure() {
            return;
        }
        let (ev, l) = match self.stats(stage) {
            Some(s) => (s.evaluations, s.label(label)),
            None => (0, 0),
        };
        if ev == 0 || l * 1_000_000 < ev * min_ppm {
            self.inconclusive.push(format!(
                "health gate: stage {} label {} = {} of {} cases (< {} ppm)",
                stage, label, l, ev, min_ppm
            ));
        }
    }

    pub fn total_evaluations(&self) -> u64 {
        self.stages.iter().map(|(_, s)| s.evaluations).sum()
    }
    pub fn total_distinct_nontrivial(&self) -> u64 {
        self.stages.iter().map(|(_, s)| s.distinct_nontrivial()).sum()
    }
}

// ---------------------------------------------------------------------------------------------
// known findings + replay files

pub fn load_known_findings(root: &Path) -> Vec<KnownFinding> {
    let p = root.join("KNOWN_FINDINGS.txt");
    let Ok(txt) = std::fs::read_to_string(p) else { return vec![] };
    let mut out = Vec::new();
    for line in txt.lines() {
        let line = line.trim();
        let (open, rest) = if let Some(r) = line.strip_prefix("open:") {
            (true, r)
        } else if let Some(r) = line.strip_prefix("fixed:") {
            (false, r)
        } else {
            continue;
        };
        let mut property = String::new();
        let mut replay = None;
        let mut text = Vec::new();
        for tok in rest.split_whitespace() {
            if let Some(p) = tok.strip_prefix("property=") {
                property = p.to_string();
            } else if let Some(r) = tok.strip_prefix("replay=") {
                replay = Some(r.to_string());
            } else {
                text.push(tok);
            }
        }
        out.push(KnownFinding { open, property, replay, text: text.join(" ") });
    }
    out
}

pub struct ReplayFile {
    pub property: String,
    pub stage: String,
    pub input: Input,
    pub message: String,
    /// how the input rendered when the file was recorded (tape inputs only mean something together with the generator that decodes them)
    pub rendered: Option<String>,
}

pub fn read_replay(path: &Path) -> Result<ReplayFile, String> {
    let txt = std::fs::read_to_string(path).map_err(|e| format!("cannot read {}: {}", path.display(), e))?;
    let v: Value = serde_json::from_str(&txt).map_err(|e| format!("bad json in {}: {}", path.display(), e))?;
    Ok(ReplayFile {
        property: v.get("property").and_then(|x| x.as_str()).unwrap_or("").to_string(),
        stage: v.get("stage").and_then(|x| x.as_str()).unwrap_or("").to_string(),
        input: v.get("input").and_then(Input::from_json).ok_or_else(|| format!("no input in {}", path.display()))?,
        message: v.get("message").and_then(|x| x.as_str()).unwrap_or("").to_string(),
        rendered: v.get("rendered").and_then(|x| x.as_str()).map(|x| x.to_string()),
    })
}

pub fn write_replay(root: &Path, dir: &str, property: &str, f: &Failure, rendered: Option<String>) -> PathBuf {
    let mut h = std::collections::hash_map::DefaultHasher::new();
    f.stage.hash(&mut h);
    match &f.input {
        Input::Tape(t) => t.hash(&mut h),
        Input::Args(a) => a.hash(&mut h),
        Input::Bytes(b) => b.hash(&mut h),
    }
    let name = format!("{}-{}-{:016x}.json", property, f.stage.replace(':', "_"), h.finish());
    let d = root.join(dir);
    let _ = std::fs::create_dir_all(&d);
    let p = d.join(name);
    let v = json!({
        "property": property,
        "stage": f.stage,
        "input": f.input.to_json(),
        "message": f.message,
        "rendered": rendered,
    });
    let _ = std::fs::write(&p, serde_json::to_string_pretty(&v).unwrap());
    p
}

/// Re-run one stage on one input, no proptest involved. Returns Err(message) on violation.
pub fn replay_stage(stage: &Stage, input: &Input, strict: bool) -> (Result<(), String>, Option<String>) {
    let mut case = Case::default();
    case.want_sample = true;
    case.strict = strict;
    let r = run_stage_fn(stage, input, &mut case);
    (r, case.sample)
}

// ---------------------------------------------------------------------------------------------
// evidence

pub fn evidence_json(rc: &RunCtx, rule: &str, assumptions: &[&str], violations: u64) -> Value {
    let mut labels = serde_json::Map::new();
    let mut excluded = serde_json::Map::new();
    let mut stages = serde_json::Map::new();
    let mut samples: Vec<Value> = Vec::new();
    let mut exhaustive_sub = Vec::new();
    let mut checks = 0u64;
    for (name, s) in &rc.stages {
        let mut lj = serde_json::Map::new();
        for (k, v) in &s.labels {
            lj.insert(k.to_string(), json!(v));
            let e = labels.entry(k.to_string()).or_insert(json!(0u64));
            *e = json!(e.as_u64().unwrap_or(0) + v);
        }
        for (k, v) in &s.excluded {
            let e = excluded.entry(k.to_string()).or_insert(json!(0u64));
            *e = json!(e.as_u64().unwrap_or(0) + v);
        }
        for smp in &s.samples {
            samples.push(json!({"stage": name, "case": smp}));
        }
        if s.exhaustive {
            exhaustive_sub.push(name.to_string());
        }
        checks += s.checks;
        stages.insert(
            name.to_string(),
            json!({
                "kind": s.kind,
                "evaluations": s.evaluations,
                "skipped_excluded_class": s.skipped,
                "nontrivial": s.nontrivial_total,
                "distinct_nontrivial": s.distinct_nontrivial(),
                "oracle_checks": s.checks,
                "exhaustive": s.exhaustive,
                "wall_s": (s.wall_s * 1000.0).round() / 1000.0,
                "labels": Value::Object(lj),
            }),
        );
    }
    let all_exhaustive = !rc.stages.is_empty() && rc.stages.iter().all(|(_, s)| s.exhaustive);
    let mut cov = serde_json::Map::new();
    cov.insert("evaluations".into(), json!(rc.total_evaluations()));
    cov.insert("distinct_nontrivial".into(), json!(rc.total_distinct_nontrivial()));
    cov.insert("rule".into(), json!(rule));
    cov.insert("samples".into(), Value::Array(samples));
    cov.insert("labels".into(), Value::Object(labels));
    cov.insert("excluded_by_construction".into(), Value::Object(excluded));
    cov.insert("stages".into(), Value::Object(stages));
    cov.insert("oracle_checks".into(), json!(checks));
    cov.insert("exhaustive".into(), json!(all_exhaustive));
    cov.insert("exhaustive_subdomains".into(), json!(exhaustive_sub));
    cov.insert("known_findings".into(), json!(rc.known_lines));
    cov.insert("notes".into(), json!(rc.notes));
    cov.insert("threads".into(), json!(rc.threads));
    if let Some(f) = &rc.fuzz {
        cov.insert("fuzz".into(), f.clone());
    }
    json!({
        "property_id": rc.property,
        "tier": if rc.quick() { "quick" } else { "thorough" },
        "seed": rc.seed,
        "level": "exploration",
        "coverage": Value::Object(cov),
        "assumptions": assumptions,
        "wall_s": (rc.start.elapsed().as_millis() as f64) / 1000.0,
        "violations": violations,
        "inconclusive": rc.inconclusive,
    })
}

/// Minimal helper to shrink-free test a strategy's tree (used in unit tests only).
#[allow(dead_code)]
pub fn sample_tape(seed: u64, len: usize) -> Vec<u16> {
    let rng = TestRng::from_seed(RngAlgorithm::ChaCha, &shard_seed(seed, "sample", "sample", 0));
    let mut runner = TestRunner::new_with_rng(Config { failure_persistence: None, ..Config::default() }, rng);
    let strat = proptest::collection::vec(proptest::num::u16::ANY, len..=len);
    strat.new_tree(&mut runner).unwrap().current()
}

// ---------------------------------------------------------------------------------------------
// libFuzzer stage (thorough tiers): the fuzzer's bytes are the choice tape of the stage

impl RunCtx {
    pub fn fuzz_seconds(&self) -> u64 {
        std::env::var("VERIF_FUZZ_SECONDS").ok().and_then(|s| s.parse().ok()).unwrap_or(120)
    }

    /// Coverage-guided search over the tapes of `stage` (or the raw-byte `codec` target when `stage` is None).
    pub fn run_fuzz(&mut self, stage: Option<Stage>, tape_len: usize) {
        if self.has_failure() {
            return;
        }
        let secs = self.fuzz_seconds();
        if secs == 0 {
            self.notes.push("fuzz stage skipped (VERIF_FUZZ_SECONDS=0)".into());
            return;
        }
        let t0 = Instant::now();
        let harness = self.root.join("harness");
        let target = if stage.is_some() { "stage" } else { "codec" };
        let sname = stage.map(|s| s.name).unwrap_or("codec");
        let work = harness.join("fuzz").join("work").join(format!("{}-{}-{}", self.property, sname, std::process::id()));
        let corpus = work.join("corpus");
        let artifacts = work.join("artifacts");
        let _ = std::fs::remove_dir_all(&work);
        if std::fs::create_dir_all(&corpus).is_err() || std::fs::create_dir_all(&artifacts).is_err() {
            self.inconclusive.push(format!("fuzz: cannot create {}", work.display()));
            return;
        }
        // seeds: committed corpus + tapes sampled from the proptest RNG (so libFuzzer does not start from length 0)
        let mut seeds = 0;
        let committed = self.root.join("corpus").join(self.property).join(sname);
        if let Ok(rd) = std::fs::read_dir(&committed) {
            for e in rd.filter_map(|e| e.ok()) {
                if std::fs::copy(e.path(), corpus.join(e.file_name())).is_ok() {
                    seeds += 1;
                }
            }
        }
        for k in 0..48u64 {
            let tape = sample_tape(self.seed.wrapping_mul(1_000_003).wrapping_add(k), tape_len);
            if std::fs::write(corpus.join(format!("sampled-{}", k)), crate::tape::tape_to_bytes(&tape)).is_ok() {
                seeds += 1;
            }
        }
        let mut cmd = std::process::Command::new("cargo");
        // no sanitizer: the crates under test contain no unsafe code; debug assertions + overflow checks are on (and ASan's
        // shadow memory does not fit under the address-space cap the check script sets)
        cmd.args(["+nightly", "fuzz", "run", "--sanitizer", "none", target])
            .arg(&corpus)
            .arg("--")
            .arg("-fork=8")
            .arg(format!("-max_total_time={}", secs))
            .arg(format!("-seed={}", (self.seed % 4_000_000_000).max(1)))
            .args(["-len_control=0", "-rss_limit_mb=6000", "-timeout=60", "-print_final_stats=1"])
            .arg(format!("-max_len={}", 2 * tape_len.max(64)))
            .arg(format!("-artifact_prefix={}/", artifacts.display()))
            .current_dir(&harness)
            .env("CARGO_NET_OFFLINE", "true")
            .env("EBV_FUZZ_PROP", self.property)
            .env("EBV_FUZZ_STAGE", sname);
        let out = match cmd.output() {
            Ok(o) => o,
            Err(e) => {
                self.inconclusive.push(format!("fuzz: cannot run cargo fuzz: {}", e));
                return;
            }
        };
        let log = format!("{}{}", String::from_utf8_lossy(&out.stdout), String::from_utf8_lossy(&out.stderr));
        // statistics: last "#N: cov: .. ft: .. corp: .. exec/s .." line of fork mode
        let mut execs = 0u64;
        let mut cov = 0u64;
        let mut corp = 0u64;
        for l in log.lines() {
            if let Some(rest) = l.strip_prefix('#') {
                let toks: Vec<&str> = rest.split_whitespace().collect();
                if let Some(n) = toks.first().and_then(|x| x.trim_end_matches(':').parse::<u64>().ok()) {
                    execs = execs.max(n);
                }
                for w in toks.windows(2) {
                    if w[0] == "cov:" {
                        cov = w[1].parse().unwrap_or(cov);
                    }
                    if w[0] == "corp:" {
                        corp = w[1].split('/').next().and_then(|x| x.parse().ok()).unwrap_or(corp);
                    }
                }
            }
        }
        let mut crashes: Vec<PathBuf> = std::fs::read_dir(&artifacts).map(|d| d.filter_map(|e| e.ok()).map(|e| e.path()).collect()).unwrap_or_default();
        crashes.sort();
        let mut reported = false;
        let violation_seen = log.contains("EBV-VIOLATION");
        for c in &crashes {
            let Ok(bytes) = std::fs::read(c) else { continue };
            match stage {
                Some(st) => {
                    let input = Input::Tape(crate::tape::tape_from_bytes(&bytes));
                    let (res, _) = replay_stage(&st, &input, true);
                    if let Err(m) = res {
                        if m.starts_with("PANIC escaped the case function") {
                            self.inconclusive.push(format!("fuzz: harness panic on {}: {}", c.display(), m));
                        } else {
                            self.failures.push(Failure { stage: st.name, input, message: format!("[found by libFuzzer] {}", m) });
                        }
                        reported = true;
                        break;
                    }
                }
                None => {
                    // codec target: the artifact is the input; report it verbatim
                    let line = log.lines().find(|l| l.contains("EBV-VIOLATION")).unwrap_or("EBV-VIOLATION (see artifact)").to_string();
                    self.failures.push(Failure { stage: "codec_fuzz", input: Input::Bytes(bytes), message: line });
                    reported = true;
                    break;
                }
            }
        }
        if !reported && (violation_seen || !crashes.is_empty()) {
            self.inconclusive.push(format!("fuzz: {} artifact(s) / violation message did not reproduce in-process (work dir {})", crashes.len(), work.display()));
        } else if !reported && !out.status.success() {
            let tail: Vec<&str> = log.lines().rev().take(6).collect();
            self.inconclusive.push(format!("fuzz: libFuzzer ended with {:?} without an oracle violation: {}", out.status.code(), tail.into_iter().rev().collect::<Vec<_>>().join(" | ")));
        }
        let secs_used = t0.elapsed().as_secs_f64();
        let entry = json!({"target": target, "stage": sname, "seconds": (secs_used * 10.0).round() / 10.0, "budget_s": secs, "executions": execs, "coverage_edges": cov, "corpus_units": corp, "seed_inputs": seeds, "crash_artifacts": crashes.len(), "jobs": 8});
        match &mut self.fuzz {
            Some(Value::Array(a)) => a.push(entry),
            _ => self.fuzz = Some(Value::Array(vec![entry])),
        }
        let st = self.stats_mut(if stage.is_some() { "libfuzzer" } else { "libfuzzer_codec" });
        st.kind = "libfuzzer";
        st.evaluations += execs;
        st.wall_s += secs_used;
        if !reported {
            let _ = std::fs::remove_dir_all(&work);
        }
    }
}
