//! Generators: everything is decoded from a choice tape. Construction over rejection.

use std::rc::Rc;

use crate::model::*;
use crate::refmodel::*;
use crate::tape::Tape;

// ---------------------------------------------------------------------------------------------
// ids

/// well-formed id of byte length `len` (1..=8) number `k` (1..=100); never all-zero / all-one value bits
pub fn mk_id(len: usize, k: u64) -> u64 {
    let mask: u64 = (1u64 << (7 * len)) - 1;
    let mut v = if len == 1 { k } else { k.wrapping_mul(0x0101_0101_0101_0101) & mask };
    if v == 0 {
        v = 1;
    }
    if v == mask {
        v -= 1;
    }
    (1u64 << (7 * len)) | v
}

const ID_LEN_WEIGHTS: [u32; 8] = [10, 7, 4, 4, 1, 1, 1, 1];

pub fn gen_fresh_id(t: &mut Tape, used: &mut Vec<u64>) -> u64 {
    gen_fresh_id_max(t, used, 8)
}

pub fn gen_fresh_id_max(t: &mut Tape, used: &mut Vec<u64>, max_len: usize) -> u64 {
    let len = t.weighted(&ID_LEN_WEIGHTS[..max_len.clamp(1, 8)]) + 1;
    let mut k = 1 + t.below(100) as u64;
    loop {
        let id = mk_id(len, k);
        if !used.contains(&id) && id != 0xBF && id != 0xEC {
            used.push(id);
            return id;
        }
        k = k % 100 + 1;
    }
}

/// a well-formed id that is NOT in the spec
pub fn gen_unknown_id(t: &mut Tape, spec: &SpecTable) -> u64 {
    let len = t.weighted(&ID_LEN_WEIGHTS) + 1;
    let mut k = 101 + t.below(26) as u64;
    loop {
        let id = if len == 1 { (1u64 << 7) | (k & 0x7F).max(1).min(0x7E) } else { mk_id(len, k) };
        if spec.get(id).is_none() && id != 0xBF && id != 0xEC {
            return id;
        }
        k += 1;
        if k > 127 {
            k = 1;
        }
    }
}

// ---------------------------------------------------------------------------------------------
// specifications

fn gen_bounds(t: &mut Tape) -> (Option<u64>, Option<u64>) {
    let min = match t.weighted(&[3, 2, 3, 1, 1]) {
        0 => None,
        1 => Some(0),
        2 => Some(1),
        3 => Some(2),
        _ => Some(3),
    };
    let lo = min.unwrap_or(0).max(1);
    let max = match t.weighted(&[3, 2, 2, 2]) {
        0 => None,
        1 => Some(lo),
        2 => Some(lo + 1),
        _ => Some(lo + 2),
    };
    (min, max)
}

#[derive(Clone, Copy, Debug)]
pub struct SpecOpts {
    pub globals: bool,
    pub max_elems: usize,
    pub builtins: bool,
    /// longest id in bytes (8 = no restriction); with `short_ids_only` the macro-derived RichSpec (4-byte ids) is not chosen either
    pub max_id_len: usize,
}

impl Default for SpecOpts {
    fn default() -> Self {
        SpecOpts { globals: true, max_elems: 24, builtins: true, max_id_len: 8 }
    }
}

pub fn gen_spec(t: &mut Tape, o: SpecOpts) -> SpecTable {
    let n = t.range(3, o.max_elems.max(3));
    let mut used = Vec::new();
    let mut elems: Vec<Elem> = Vec::new();
    let mut depth: Vec<usize> = Vec::new();
    let mut roots = 0;
    let mut globals = 0;
    // first: a root master
    let id = gen_fresh_id_max(t, &mut used, o.max_id_len);
    elems.push(Elem { id, ty: Ty::Master, path: vec![], name: "E0".into() });
    depth.push(0);
    roots += 1;
    for i in 1..n {
        let id = gen_fresh_id_max(t, &mut used, o.max_id_len);
        let masters: Vec<usize> = (0..elems.len()).filter(|&j| elems[j].ty == Ty::Master && depth[j] < 5).collect();
        let ty = if t.chance(2, 5) { Ty::Master } else { *t.pick(&[Ty::U, Ty::I, Ty::S, Ty::B, Ty::F]) };
        let kind = if o.globals { t.weighted(&[40, 4, 5, 6]) } else { t.weighted(&[40, 4]) };
        // 0 child of a master, 1 new root, 2 pure global, 3 child with trailing placeholder
        let (path, d) = match kind {
            1 if roots < 3 => {
                roots += 1;
                (vec![], 0)
            }
            2 if globals < 3 => {
                globals += 1;
                (vec![PathPart::Global(gen_bounds(t))], 1)
            }
            k => {
                if masters.is_empty() {
                    (vec![], 0)
                } else {
                    // prefer deeper parents a little so that depth >= 3 is common
                    let j = masters[t.below(masters.len())];
                    let mut p = elems[j].path.clone();
                    p.push(PathPart::Id(elems[j].id));
                    let mut d = depth[j] + 1;
                    if k == 3 {
                        p.push(PathPart::Global(gen_bounds(t)));
                        d += 1;
                    }
                    (p, d)
                }
            }
        };
        elems.push(Elem { id, ty, path, name: format!("E{}", i) });
        depth.push(d);
    }
    if o.builtins && t.chance(1, 2) {
        elems.push(Elem { id: 0xEC, ty: Ty::B, path: vec![PathPart::Global((None, None))], name: "Void".into() });
        elems.push(Elem { id: 0xBF, ty: Ty::B, path: vec![PathPart::Global((Some(1), None))], name: "Crc32".into() });
    }
    SpecTable::new(elems)
}

// ---------------------------------------------------------------------------------------------
// payloads

pub const BOUNDARY_LENS: [usize; 13] = [0, 1, 2, 7, 8, 9, 126, 127, 128, 129, 16382, 16383, 16384];

#[derive(Clone, Copy, Debug)]
pub struct PayOpts {
    /// allow 16382..16384 (costly) — at most `big_left` per document
    pub big_left: usize,
    pub huge: bool,
    pub max_small: usize,
}

impl Default for PayOpts {
    fn default() -> Self {
        PayOpts { big_left: 1, huge: false, max_small: 40 }
    }
}

pub fn gen_len(t: &mut Tape, o: &mut PayOpts) -> usize {
    match t.weighted(&[50, 22, 10, 3, 1]) {
        0 => t.below(o.max_small + 1),
        1 => BOUNDARY_LENS[t.below(10)],
        2 => t.range(100, 300),
        3 => {
            if o.big_left > 0 {
                o.big_left -= 1;
                BOUNDARY_LENS[10 + t.below(3)]
            } else {
                BOUNDARY_LENS[6 + t.below(4)]
            }
        }
        _ => {
            if o.huge && o.big_left > 0 {
                o.big_left -= 1;
                *t.pick(&[(1usize << 21) - 2, (1 << 21) - 1, 1 << 21, 70_000, 65_536, 65_535])
            } else {
                t.below(o.max_small + 1)
            }
        }
    }
}

/// give one string / binary / raw leaf of the forest a payload of `n` bytes (returns false if there is no such leaf)
pub fn enlarge_one_leaf(t: &mut Tape, forest: &mut [Node], n: usize) -> bool {
    fn count(f: &[Node]) -> usize {
        f.iter().map(|x| match &x.kind {
            NodeKind::Leaf(Payload::S(_)) | NodeKind::Leaf(Payload::B(_)) | NodeKind::Leaf(Payload::Raw(_)) => 1,
            NodeKind::Master(ch) => count(ch),
            _ => 0,
        }).sum()
    }
    fn set(f: &mut [Node], k: &mut usize, t: &mut Tape, n: usize) -> bool {
        for x in f.iter_mut() {
            match &mut x.kind {
                NodeKind::Leaf(p @ Payload::S(_)) | NodeKind::Leaf(p @ Payload::B(_)) | NodeKind::Leaf(p @ Payload::Raw(_)) => {
                    if *k == 0 {
                        *p = match p {
                            Payload::S(_) => Payload::S(gen_string(t, n)),
                            Payload::B(_) => Payload::B(t.filler(n)),
                            _ => Payload::Raw(t.filler(n)),
                        };
                        return true;
                    }
                    *k -= 1;
                }
                NodeKind::Master(ch) => {
                    if set(ch, k, t, n) {
                        return true;
                    }
                }
                _ => {}
            }
        }
        false
    }
    let c = count(forest);
    if c == 0 {
        return false;
    }
    let mut k = t.below(c);
    set(forest, &mut k, t, n)
}

/// Like `enlarge_one_leaf`, but the leaf is the first child of an unknown-size master all of whose ancestors have unknown size too (the
/// writer then holds nothing back except that master's own header when the payload arrives).  Falls back to any leaf.
pub fn enlarge_first_child_of_streamed_master(t: &mut Tape, forest: &mut [Node], n: usize) -> (bool, bool) {
    fn collect(f: &[Node], under_unknown: bool, top: bool, path: &mut Vec<usize>, out: &mut Vec<Vec<usize>>) {
        for (i, x) in f.iter().enumerate() {
            path.push(i);
            if let NodeKind::Master(ch) = &x.kind {
                let streamed = x.enc.unknown && !x.enc.full && !x.enc.flat_in_full && (top || under_unknown);
                if streamed {
                    if let Some(first) = ch.first() {
                        if matches!(first.kind, NodeKind::Leaf(Payload::B(_)) | NodeKind::Leaf(Payload::Raw(_))) && !first.enc.mark {
                            let mut p = path.clone();
                            p.push(0);
                            out.push(p);
                        }
                    }
                    collect(ch, true, false, path, out);
                }
            }
            path.pop();
        }
    }
    let mut out = Vec::new();
    collect(forest, false, true, &mut Vec::new(), &mut out);
    if out.is_empty() {
        return (enlarge_one_leaf(t, forest, n), false);
    }
    let p = out[t.below(out.len())].clone();
    let mut cur: &mut [Node] = forest;
    for (k, &i) in p.iter().enumerate() {
        if k + 1 == p.len() {
            let fill = t.filler(n);
            if let NodeKind::Leaf(pl) = &mut cur[i].kind {
                *pl = match pl {
                    Payload::B(_) => Payload::B(fill),
                    _ => Payload::Raw(fill),
                };
            }
            return (true, true);
        }
        cur = match &mut cur[i].kind {
            NodeKind::Master(ch) => ch.as_mut_slice(),
            _ => unreachable!(),
        };
    }
    (false, false)
}

pub fn gen_u64(t: &mut Tape) -> u64 {
    match t.weighted(&[3, 5, 4]) {
        0 => t.below(300) as u64,
        1 => {
            let k = *t.pick(&[0u32, 7, 8, 15, 16, 24, 31, 32, 40, 48, 55, 56, 63]);
            let d = t.below(5) as i64 - 2;
            if k == 0 {
                (d.max(0)) as u64
            } else {
                (1u64 << k).wrapping_add(d as u64)
            }
        }
        _ => {
            if t.chance(1, 4) {
                u64::MAX - t.below(3) as u64
            } else {
                // random magnitude
                let bits = t.range(1, 64);
                let v = t.u64();
                if bits == 64 {
                    v
                } else {
                    v & ((1u64 << bits) - 1)
                }
            }
        }
    }
}

pub fn gen_i64(t: &mut Tape) -> i64 {
    match t.weighted(&[3, 6, 4]) {
        0 => t.below(300) as i64 - 150,
        1 => {
            let k = *t.pick(&[0u32, 6, 7, 8, 14, 15, 16, 23, 31, 32, 39, 47, 55, 56, 62, 63]);
            let d = t.below(5) as i64 - 2;
            let base: i64 = if k == 63 { i64::MIN } else { 1i64 << k };
            let v = base.wrapping_add(d);
            if k != 63 && t.chance(1, 2) {
                v.wrapping_neg()
            } else {
                v
            }
        }
        _ => {
            let bits = t.range(1, 64);
            let v = t.u64();
            let v = if bits == 64 { v } else { v & ((1u64 << bits) - 1) };
            if t.chance(1, 2) {
                (v as i64).wrapping_neg()
            } else {
                v as i64
            }
        }
    }
}

pub const F64_SPECIALS: [u64; 16] = [
    0x0000000000000000, // +0
    0x8000000000000000, // -0
    0x3FF0000000000000, // 1.0
    0xBFF8000000000000, // -1.5
    0x7FF0000000000000, // +inf
    0xFFF0000000000000, // -inf
    0x7FF8000000000000, // qNaN
    0x7FF8000000000001, // qNaN payload
    0x7FF0000000000001, // sNaN
    0xFFF4000000000123, // -sNaN payload
    0x0000000000000001, // min subnormal
    0x000FFFFFFFFFFFFF, // max subnormal
    0x7FEFFFFFFFFFFFFF, // max finite
    0x36A0000000000000, // f32 min subnormal as f64
    0x47EFFFFFE0000000, // f32 max as f64
    0x3FB999999999999A, // 0.1
];

pub fn gen_f64_bits(t: &mut Tape) -> u64 {
    match t.weighted(&[2, 5, 3, 3]) {
        0 => (t.below(64) as f64 * 0.25).to_bits(),
        1 => F64_SPECIALS[t.below(F64_SPECIALS.len())],
        2 => {
            // f32-representable
            let f = f32::from_bits(t.u32());
            if f.is_nan() {
                1.0f64.to_bits()
            } else {
                (f as f64).to_bits()
            }
        }
        _ => t.u64(),
    }
}

pub fn gen_string(t: &mut Tape, len: usize) -> String {
    // exact byte length `len`; a few multi-byte scalars first, ASCII filler after
    let mut s = String::with_capacity(len);
    let scalars = ['é', 'ß', '€', '中', '😀', '\u{10FFFF}', '\u{7FF}', '\u{800}', '\0', 'a'];
    let mut fancy = t.below(4);
    while fancy > 0 {
        let c = *t.pick(&scalars);
        if s.len() + c.len_utf8() <= len {
            s.push(c);
        }
        fancy -= 1;
    }
    let fill = b'a' + t.below(26) as u8;
    // EBML strings may be padded with trailing NUL octets: legal content that must survive every round trip
    let pad = if t.chance(1, 8) { (1 + t.below(3)).min(len.saturating_sub(s.len())) } else { 0 };
    while s.len() + pad < len {
        s.push(fill as char);
    }
    while s.len() < len {
        s.push('\0');
    }
    s
}

pub fn gen_binary(t: &mut Tape, len: usize) -> Vec<u8> {
    if len <= 12 {
        t.bytes(len)
    } else {
        let mut v = t.filler(len);
        // make first and last bytes tape-controlled (zeros / 0xFF matter for parsers)
        v[0] = t.u8();
        let l = v.len();
        v[l - 1] = t.u8();
        v
    }
}

pub fn gen_payload(t: &mut Tape, ty: Ty, po: &mut PayOpts) -> Payload {
    match ty {
        Ty::U => Payload::U(gen_u64(t)),
        Ty::I => Payload::I(gen_i64(t)),
        Ty::F => Payload::F(gen_f64_bits(t)),
        Ty::S => {
            let n = gen_len(t, po);
            Payload::S(gen_string(t, n))
        }
        Ty::B => {
            let n = gen_len(t, po);
            Payload::B(gen_binary(t, n))
        }
        Ty::Master => unreachable!(),
    }
}

// ---------------------------------------------------------------------------------------------
// trees

#[derive(Clone, Copy, Debug)]
pub struct TreeOpts {
    pub max_nodes: usize,
    pub max_depth: usize,
    pub max_children: usize,
    pub max_roots: usize,
    /// bias towards masters (deep documents)
    pub deep: bool,
    pub pay: PayOpts,
}

impl Default for TreeOpts {
    fn default() -> Self {
        TreeOpts { max_nodes: 60, max_depth: 7, max_children: 6, max_roots: 3, deep: false, pay: PayOpts::default() }
    }
}

/// candidates (indices into spec.elems) that may appear directly under `chain`
pub fn candidates(spec: &SpecTable, chain: &[u64]) -> Vec<usize> {
    (0..spec.elems.len()).filter(|&i| ref_match(&spec.elems[i].path, chain)).collect()
}

struct TreeGen<'s> {
    spec: &'s SpecTable,
    o: TreeOpts,
    left: usize,
    pay: PayOpts,
}

impl<'s> TreeGen<'s> {
    fn node(&mut self, t: &mut Tape, ei: usize, chain: &mut Vec<u64>) -> Node {
        let e = &self.spec.elems[ei];
        self.left = self.left.saturating_sub(1);
        if e.ty != Ty::Master {
            return Node::leaf(e.id, gen_payload(t, e.ty, &mut self.pay));
        }
        let mut ch = Vec::new();
        if chain.len() + 1 < self.o.max_depth {
            chain.push(e.id);
            let cands = candidates(self.spec, chain);
            if !cands.is_empty() {
                let masters: Vec<usize> = cands.iter().copied().filter(|&i| self.spec.elems[i].ty == Ty::Master).collect();
                let n = if self.o.deep { t.weighted(&[1, 4, 4, 3, 2, 1, 1]) } else { t.weighted(&[2, 4, 4, 3, 2, 1, 1]) }.min(self.o.max_children);
                for _ in 0..n {
                    if self.left == 0 {
                        break;
                    }
                    let pick_master = !masters.is_empty() && t.chance(if self.o.deep { 3 } else { 2 }, 5);
                    let ci = if pick_master { masters[t.below(masters.len())] } else { cands[t.below(cands.len())] };
                    let c = self.node(t, ci, chain);
                    ch.push(c);
                }
            }
            chain.pop();
        }
        Node::master(e.id, ch)
    }
}

/// A conformant forest: first element is a true root element (empty path).
pub fn gen_forest(t: &mut Tape, spec: &SpecTable, o: TreeOpts) -> Vec<Node> {
    let roots: Vec<usize> = (0..spec.elems.len()).filter(|&i| spec.elems[i].is_root()).collect();
    let root_masters: Vec<usize> = roots.iter().copied().filter(|&i| spec.elems[i].ty == Ty::Master).collect();
    let top = candidates(spec, &[]);
    let mut g = TreeGen { spec, o, left: o.max_nodes, pay: o.pay };
    let mut out = Vec::new();
    let nroots = 1 + t.weighted(&[5, 3, 1]).min(o.max_roots.saturating_sub(1));
    let mut chain = Vec::new();
    for k in 0..nroots {
        if g.left == 0 {
            break;
        }
        let ei = if k == 0 {
            if !root_masters.is_empty() && t.chance(9, 10) {
                root_masters[t.below(root_masters.len())]
            } else {
                roots[t.below(roots.len())]
            }
        } else {
            top[t.below(top.len())]
        };
        out.push(g.node(t, ei, &mut chain));
    }
    out
}

// ---------------------------------------------------------------------------------------------
// encoded lengths under a given Enc assignment (reference encoder = ground truth)

pub fn content_len(n: &Node) -> usize {
    match &n.kind {
        NodeKind::Leaf(p) => payload_bytes(p, &n.enc).len(),
        NodeKind::Master(ch) => ch.iter().map(encoded_len).sum(),
    }
}

pub fn encoded_len(n: &Node) -> usize {
    let c = content_len(n);
    let idl = id_bytes(n.id).len();
    let sw = if n.is_master() && n.enc.unknown {
        if n.enc.size_w == 0 {
            1
        } else {
            n.enc.size_w as usize
        }
    } else if n.enc.size_w == 0 {
        size_min_width(c as u64)
    } else {
        n.enc.size_w as usize
    };
    idl + sw + c
}

/// widths 1..=8 able to hold `n` as a *known* size (the all-ones value is reserved)
pub fn fitting_width(t: &mut Tape, n: usize) -> u8 {
    let min = size_min_width(n as u64);
    // bias: minimal, minimal+1, 8, anything
    match t.weighted(&[3, 3, 2, 2]) {
        0 => min as u8,
        1 => (min + 1).min(8) as u8,
        2 => 8,
        _ => t.range(min, 8) as u8,
    }
}

#[derive(Clone, Copy, Debug)]
pub struct EncOpts {
    pub widths: bool,
    pub unknown: bool,
    pub full: bool,
    /// reference-encoder-only choices (padding, f32, unknown in any width)
    pub noncanonical: bool,
}

/// Assign presentation / encoding choices bottom-up (widths need content sizes).
pub fn assign_enc(t: &mut Tape, forest: &mut [Node], o: EncOpts) {
    for n in forest.iter_mut() {
        assign_enc_node(t, n, o, false);
    }
}

fn assign_enc_node(t: &mut Tape, n: &mut Node, o: EncOpts, inside_full: bool) {
    n.enc = Enc::default();
    let is_master = n.is_master();
    let mut full_here = false;
    if is_master && o.full && !inside_full && t.chance(1, 6) {
        full_here = true;
    }
    if o.noncanonical {
        match &n.kind {
            NodeKind::Leaf(Payload::U(v)) => {
                if t.chance(1, 3) {
                    n.enc.pad = if *v == 0 && t.chance(1, 2) { 255 } else { 1 + t.below(7) as u8 };
                }
            }
            NodeKind::Leaf(Payload::I(v)) => {
                if t.chance(1, 3) {
                    n.enc.pad = if *v == 0 && t.chance(1, 2) { 255 } else { 1 + t.below(7) as u8 };
                }
            }
            NodeKind::Leaf(Payload::F(b)) => {
                if f32_exact(*b) && t.chance(1, 2) {
                    n.enc.f32 = true;
                }
            }
            _ => {}
        }
    }
    if let Some(ch) = n.children_mut() {
        for c in ch.iter_mut() {
            assign_enc_node(t, c, o, inside_full || full_here);
        }
    }
    if inside_full {
        // a master inside a Full item may itself be given as Start / End children of that item
        if is_master && t.chance(1, 3) {
            n.enc.flat_in_full = true;
        }
        return;
    }
    n.enc.full = full_here;
    if is_master && o.unknown && !full_here && t.chance(1, 4) {
        n.enc.unknown = true;
        n.enc.size_w = if o.noncanonical { 1 + t.below(8) as u8 } else { 8 };
        return;
    }
    if o.widths && t.chance(1, 4) {
        let c = content_len(n);
        n.enc.size_w = fitting_width(t, c);
    }
}

/// Clear `unknown` flags that would make the document ambiguous (see DESIGN 4.1-b / 4.7):
/// (1) masters whose declared path contains a placeholder; (2) an unknown-size master directly
/// followed (as next sibling) by an element that does not end it by the C07 rule (global elements).
/// Returns the number of flags cleared per class.
pub fn sanitize_unknown(spec: &SpecTable, forest: &mut [Node], writer_view: bool) -> (usize, usize) {
    let mut c1 = 0;
    let mut c2 = 0;
    fn rec(spec: &SpecTable, sibs: &mut [Node], writer_view: bool, c1: &mut usize, c2: &mut usize) {
        for i in 0..sibs.len() {
            let next_id = sibs.get(i + 1).map(|n| n.id);
            let n = &mut sibs[i];
            if n.is_master() && n.enc.unknown {
                let global_path = spec.get(n.id).map(|e| e.is_global()).unwrap_or(true);
                let mut clear = false;
                if global_path {
                    // "sibling" is not defined for a master whose own path has a placeholder, so such a master may only keep its unknown size
                    // where the question never arises: nothing follows it at its own level (an enclosing master's end, a higher-level
                    // element or the end of input closes it), and nothing inside it would close it by the reference rule (a declared
                    // sibling, i.e. an element of the identical path, or an element of an ancestor's type)
                    fn any_desc(n: &Node, f: &dyn Fn(&Node) -> bool) -> bool {
                        n.children().iter().any(|c| f(c) || any_desc(c, f))
                    }
                    let m_id = n.id;
                    // (for this purpose "would close" ignores the exemption of global elements: an element that is global AND of an ancestor's
                    // type, or of the identical path, is exactly the case the statement answers both ways)
                    let m_path = spec.get(m_id).map(|e| e.path.clone()).unwrap_or_default();
                    let inner_closer = any_desc(n, &|d| {
                        ref_closes(spec, m_id, d.id)
                            || m_path.iter().any(|p| matches!(p, PathPart::Id(x) if *x == d.id))
                            || spec.get(d.id).map(|e| e.path == m_path || e.is_root()).unwrap_or(false)
                    });
                    // (a ROOT element as the follower is no question either: it ends every open unknown-size master, whatever their paths)
                    let follower_decides = next_id.map(|nx| !spec.get(nx).map(|e| e.is_root()).unwrap_or(false)).unwrap_or(false);
                    if follower_decides || inner_closer {
                        *c1 += 1;
                        clear = true;
                    }
                } else if let Some(nx) = next_id {
                    if !ref_closes(spec, n.id, nx) {
                        *c2 += 1;
                        clear = true;
                    }
                }
                if clear {
                    n.enc.unknown = false;
                    n.enc.size_w = 0;
                    let _ = writer_view;
                }
            }
            if let Some(ch) = n.children_mut() {
                rec(spec, ch, writer_view, c1, c2);
            }
        }
    }
    rec(spec, forest, writer_view, &mut c1, &mut c2);
    (c1, c2)
}

/// After clearing flags, explicit widths chosen earlier may no longer fit: re-validate bottom-up.
pub fn fix_widths(forest: &mut [Node]) {
    fn rec(n: &mut Node) {
        if let Some(ch) = n.children_mut() {
            for c in ch.iter_mut() {
                rec(c);
            }
        }
        // (marked nodes are probes / injected faults whose width is deliberate)
        if !(n.is_master() && n.enc.unknown) && n.enc.size_w != 0 && !n.enc.mark {
            let c = content_len(n);
            let min = size_min_width(c as u64) as u8;
            if n.enc.size_w < min {
                n.enc.size_w = min;
            }
        }
    }
    for n in forest.iter_mut() {
        rec(n);
    }
}

pub fn has_label_boundary_len(forest: &[Node]) -> bool {
    fn rec(n: &Node) -> bool {
        match &n.kind {
            NodeKind::Leaf(Payload::S(s)) => is_boundary(s.len()),
            NodeKind::Leaf(Payload::B(b)) | NodeKind::Leaf(Payload::Raw(b)) => is_boundary(b.len()),
            NodeKind::Leaf(_) => false,
            NodeKind::Master(ch) => is_boundary(content_len(n)) || ch.iter().any(rec),
        }
    }
    forest.iter().any(rec)
}

pub fn is_boundary(n: usize) -> bool {
    matches!(n, 0 | 126..=129 | 16382..=16385 | 2097150..=2097153)
}

pub fn any_node(forest: &[Node], f: &dyn Fn(&Node) -> bool) -> bool {
    fn rec(n: &Node, f: &dyn Fn(&Node) -> bool) -> bool {
        f(n) || n.children().iter().any(|c| rec(c, f))
    }
    forest.iter().any(|n| rec(n, f))
}

pub fn count_nodes(forest: &[Node], f: &dyn Fn(&Node) -> bool) -> usize {
    fn rec(n: &Node, f: &dyn Fn(&Node) -> bool) -> usize {
        (f(n) as usize) + n.children().iter().map(|c| rec(c, f)).sum::<usize>()
    }
    forest.iter().map(|n| rec(n, f)).sum()
}

pub fn forest_depth(forest: &[Node]) -> usize {
    forest.iter().map(|n| n.depth()).max().unwrap_or(0)
}

// ---------------------------------------------------------------------------------------------
// spec choice shared by most reader/writer properties

pub enum SpecChoice {
    Dyn(Rc<SpecTable>),
    Rich(Rc<SpecTable>),
}

impl SpecChoice {
    pub fn table(&self) -> &Rc<SpecTable> {
        match self {
            SpecChoice::Dyn(t) | SpecChoice::Rich(t) => t,
        }
    }
    pub fn is_rich(&self) -> bool {
        matches!(self, SpecChoice::Rich(_))
    }
}

thread_local! {
    static RICH: Rc<SpecTable> = Rc::new(crate::dynspec::rich_table());
}

pub fn rich() -> Rc<SpecTable> {
    RICH.with(|r| r.clone())
}

/// 1 in 4 cases use the macro-derived RichSpec, the others a generated DynSpec (installed as current).
pub fn gen_spec_choice(t: &mut Tape, o: SpecOpts) -> SpecChoice {
    if t.chance(1, 4) && o.max_id_len >= 4 {
        SpecChoice::Rich(rich())
    } else {
        let s = Rc::new(gen_spec(t, o));
        crate::dynspec::set_current(s.clone());
        SpecChoice::Dyn(s)
    }
}

/// Dispatch a generic function over the chosen specification type.
#[macro_export]
macro_rules! with_spec {
    ($choice:expr, $T:ident => $body:expr) => {
        match &$choice {
            $crate::gen::SpecChoice::Dyn(_) => {
                type $T = $crate::dynspec::DynTag;
                $body
            }
            $crate::gen::SpecChoice::Rich(_) => {
                type $T = $crate::dynspec::RichSpec;
                $body
            }
        }
    };
}
