//! A "choice tape": the only source of randomness inside a property. proptest generates and
//! shrinks the tape (`Vec<u16>`); libFuzzer supplies it as bytes. All choices map the raw value
//! monotonically onto the range (`v * n >> 16`), so shrinking a tape element towards 0 moves the
//! choice towards the first (simplest) alternative, and an exhausted tape yields the simplest.

#[derive(Clone)]
pub struct Tape<'a> {
    d: &'a [u16],
    p: usize,
}

impl<'a> Tape<'a> {
    pub fn new(d: &'a [u16]) -> Self {
        Tape { d, p: 0 }
    }
    pub fn consumed(&self) -> usize {
        self.p.min(self.d.len())
    }
    pub fn exhausted(&self) -> bool {
        self.p >= self.d.len()
    }
    pub fn remaining(&self) -> usize {
        self.d.len().saturating_sub(self.p)
    }
    pub fn raw(&mut self) -> u16 {
        let v = self.d.get(self.p).copied().unwrap_or(0);
        self.p += 1;
        v
    }
    /// uniform in 0..n (n >= 1)
    pub fn below(&mut self, n: usize) -> usize {
        debug_assert!(n >= 1);
        if n <= 1 {
            return 0;
        }
        if n <= 1 << 16 {
            ((self.raw() as u64 * n as u64) >> 16) as usize
        } else {
            let v = ((self.raw() as u64) << 16) | self.raw() as u64;
            ((v as u128 * n as u128) >> 32) as usize
        }
    }
    /// uniform in lo..=hi
    pub fn range(&mut self, lo: usize, hi: usize) -> usize {
        debug_assert!(lo <= hi);
        lo + self.below(hi - lo + 1)
    }
    /// true with probability num/den; an exhausted / zero tape gives false
    pub fn chance(&mut self, num: u32, den: u32) -> bool {
        let v = self.raw() as u64;
        // top part of the range is "true" so that 0 is false
        v * den as u64 >= (den - num) as u64 * 65536
    }
    /// index drawn according to weights; index 0 is the shrink target
    pub fn weighted(&mut self, w: &[u32]) -> usize {
        let total: u64 = w.iter().map(|&x| x as u64).sum();
        debug_assert!(total > 0);
        let mut r = (self.raw() as u64 * total) >> 16;
        for (i, &x) in w.iter().enumerate() {
            if r < x as u64 {
                return i;
            }
            r -= x as u64;
        }
        w.len() - 1
    }
    pub fn pick<'b, T>(&mut self, xs: &'b [T]) -> &'b T {
        &xs[self.below(xs.len())]
    }
    pub fn u8(&mut self) -> u8 {
        (self.raw() >> 8) as u8
    }
    pub fn u32(&mut self) -> u32 {
        ((self.raw() as u32) << 16) | self.raw() as u32
    }
    pub fn u64(&mut self) -> u64 {
        ((self.u32() as u64) << 32) | self.u32() as u64
    }
    pub fn bytes(&mut self, n: usize) -> Vec<u8> {
        let mut v = Vec::with_capacity(n);
        let mut i = 0;
        while i < n {
            let r = self.raw();
            v.push((r >> 8) as u8);
            i += 1;
            if i < n {
                v.push(r as u8);
                i += 1;
            }
        }
        v
    }
    /// cheap filler for long payloads: one tape word seeds a deterministic pattern
    pub fn filler(&mut self, n: usize) -> Vec<u8> {
        let s = self.raw() as u32;
        let mut x = s.wrapping_mul(2654435761).wrapping_add(12345) | 1;
        (0..n)
            .map(|_| {
                x ^= x << 13;
                x ^= x >> 17;
                x ^= x << 5;
                // never 0x00..=0x1F: read as a length marker those would announce 4-8 byte vints, i.e. (when payload bytes get
                // parsed as headers after a mutation) declared sizes of many MiB that the harness then has to steer around
                0x20 + ((x >> 11) % 0xE0) as u8
            })
            .collect()
    }
}

pub fn tape_from_bytes(b: &[u8]) -> Vec<u16> {
    b.chunks(2).map(|c| if c.len() == 2 { u16::from_le_bytes([c[0], c[1]]) } else { (c[0] as u16) << 8 }).collect()
}

pub fn tape_to_bytes(t: &[u16]) -> Vec<u8> {
    t.iter().flat_map(|v| v.to_le_bytes()).collect()
}
