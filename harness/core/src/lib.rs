//! ebv-core: property-based testing / fuzzing harness for austinleroy/ebml-iterable.
pub mod model;
pub mod dynspec;
pub mod refmodel;
pub mod tape;
pub mod runner;
pub mod drive;
pub mod gen;
pub mod allocstat;
pub mod mutate;
pub mod oracle;
pub mod props;
