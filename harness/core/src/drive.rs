//! Thin drivers around the code under test: everything is called under `catch_unwind`, errors
//! are normalised into comparable values, sources and destinations are scripted.

use std::io::{self, Read, Write};

use ebml_iterable::error::{CorruptedFileError, TagIteratorError, TagWriterError};
use ebml_iterable::iterator::AllowableErrors;
use ebml_iterable::specs::Master;
use ebml_iterable::{TagIterator, TagWriter, WriteOptions};

use crate::dynspec::{from_tag, to_tag, Spec};
use crate::model::*;
use crate::runner::guarded;

pub const TOL_IDS: u8 = 1;
pub const TOL_HIER: u8 = 2;
pub const TOL_OVER: u8 = 4;

#[derive(Clone, Debug, PartialEq, Eq)]
pub enum ErrK {
    InvalidTagId { position: usize, tag_id: u64 },
    InvalidTagData { position: usize, tag_id: u64 },
    Hierarchy { found: u64, parent: Option<u64> },
    OversizedChild { position: usize, tag_id: u64, size: usize },
    InvalidTagSize { position: usize, tag_id: u64, size: usize },
    Eof { tag_start: usize, tag_id: Option<u64>, tag_size: Option<usize>, partial: Option<Vec<u8>> },
    TagData { tag_id: u64, problem: String },
    Read { kind: io::ErrorKind, msg: String },
}

impl ErrK {
    pub fn kind(&self) -> &'static str {
        match self {
            ErrK::InvalidTagId { .. } => "InvalidTagId",
            ErrK::InvalidTagData { .. } => "InvalidTagData",
            ErrK::Hierarchy { .. } => "HierarchyError",
            ErrK::OversizedChild { .. } => "OversizedChildElement",
            ErrK::InvalidTagSize { .. } => "InvalidTagSize",
            ErrK::Eof { .. } => "UnexpectedEOF",
            ErrK::TagData { .. } => "CorruptedTagData",
            ErrK::Read { .. } => "ReadError",
        }
    }
    pub fn is_corruption(&self) -> bool {
        !matches!(self, ErrK::Eof { .. } | ErrK::Read { .. })
    }
    pub fn short(&self) -> String {
        match self {
            ErrK::Eof { tag_start, tag_id, tag_size, partial } => format!(
                "Eof{{start:{} id:{:x?} size:{:?} partial:{}}}",
                tag_start,
                tag_id,
                tag_size,
                match partial {
                    None => "None".to_string(),
                    Some(p) => short_bytes(p),
                }
            ),
            other => format!("{:x?}", other),
        }
    }
}

pub fn norm_err(e: TagIteratorError) -> ErrK {
    match e {
        TagIteratorError::CorruptedFileData(c) => match c {
            CorruptedFileError::InvalidTagId { position, tag_id } => ErrK::InvalidTagId { position, tag_id },
            CorruptedFileError::InvalidTagData { position, tag_id } => ErrK::InvalidTagData { position, tag_id },
            CorruptedFileError::HierarchyError { found_tag_id, current_parent_id } => {
                ErrK::Hierarchy { found: found_tag_id, parent: current_parent_id }
            }
            CorruptedFileError::OversizedChildElement { position, tag_id, size } => ErrK::OversizedChild { position, tag_id, size },
            CorruptedFileError::InvalidTagSize { position, tag_id, size } => ErrK::InvalidTagSize { position, tag_id, size },
        },
        TagIteratorError::UnexpectedEOF { tag_start, tag_id, tag_size, partial_data } => {
            ErrK::Eof { tag_start, tag_id, tag_size, partial: partial_data }
        }
        TagIteratorError::CorruptedTagData { tag_id, problem } => ErrK::TagData { tag_id, problem: format!("{:?}", problem) },
        TagIteratorError::ReadError { source } => ErrK::Read { kind: source.kind(), msg: source.to_string() },
    }
}

#[derive(Clone, Debug, PartialEq, Eq)]
pub enum Obs {
    Item(Flat, usize),
    Err(ErrK),
    Panic(String),
    /// more items than any input of this length can hold: treated as non-termination
    Runaway(usize),
}

impl Obs {
    pub fn short(&self) -> String {
        match self {
            Obs::Item(f, o) => format!("{:?}@{}", f, o),
            Obs::Err(e) => format!("ERR {}", e.short()),
            Obs::Panic(m) => format!("PANIC {}", m),
            Obs::Runaway(n) => format!("RUNAWAY after {} items", n),
        }
    }
}

pub fn render_obs(v: &[Obs]) -> String {
    let mut s = v.iter().map(|o| o.short()).collect::<Vec<_>>().join(", ");
    if s.len() > 1800 {
        let mut cut = 1800;
        while !s.is_char_boundary(cut) {
            cut -= 1;
        }
        s.truncate(cut);
        s.push('…');
    }
    s
}

pub fn items_of(v: &[Obs]) -> Vec<Flat> {
    v.iter()
        .filter_map(|o| match o {
            Obs::Item(f, _) => Some(f.clone()),
            _ => None,
        })
        .collect()
}

pub fn first_err(v: &[Obs]) -> Option<&Obs> {
    v.iter().find(|o| !matches!(o, Obs::Item(..)))
}

#[derive(Clone, Debug, PartialEq, Eq)]
pub enum MaxSize {
    Untouched,
    Set(Option<usize>),
}

#[derive(Clone, Debug)]
pub struct ReadCfg {
    pub tolerate: u8,
    pub buffered: Vec<u64>,
    pub capacity: Option<usize>,
    pub max_size: MaxSize,
    pub eof_close: bool,
}

impl Default for ReadCfg {
    fn default() -> Self {
        ReadCfg { tolerate: 0, buffered: vec![], capacity: None, max_size: MaxSize::Untouched, eof_close: true }
    }
}

impl ReadCfg {
    pub fn strict() -> Self {
        Self::default()
    }
    pub fn render(&self) -> String {
        format!(
            "tol={:03b} buffered={:x?} cap={:?} max={:?} eof_close={}",
            self.tolerate, self.buffered, self.capacity, self.max_size, self.eof_close
        )
    }
}

/// bit 7 of a tolerance mask: hand the same classes to allow_errors() in reverse order and each of them twice — how the slice is
/// spelled must not matter
pub const TOL_RESPELLED: u8 = 0x80;

pub fn tolerances(mask: u8) -> Vec<AllowableErrors> {
    if mask & TOL_RESPELLED != 0 {
        let m = mask & !TOL_RESPELLED;
        let mut w = tolerances(m);
        w.extend(tolerances(m));
        w.reverse();
        return w;
    }
    let mut v = Vec::new();
    if mask & TOL_IDS != 0 {
        v.push(AllowableErrors::InvalidTagIds);
    }
    if mask & TOL_HIER != 0 {
        v.push(AllowableErrors::HierarchyProblems);
    }
    if mask & TOL_OVER != 0 {
        v.push(AllowableErrors::OversizedTags);
    }
    v
}

pub enum Step {
    Item(Flat, usize),
    Err(ErrK),
    Done,
    Panic(String),
}

pub struct Rd<T: Spec, R: Read> {
    pub it: TagIterator<R, T>,
}

impl<T: Spec, R: Read> Rd<T, R> {
    pub fn new(src: R, cfg: &ReadCfg) -> Result<Self, String> {
        guarded(|| {
            let buffered: Vec<T> = cfg.buffered.iter().filter_map(|id| T::get_master_tag(*id, Master::Start)).collect();
            let mut it = match cfg.capacity {
                Some(c) => TagIterator::with_capacity(src, &buffered, c),
                None => TagIterator::new(src, &buffered),
            };
            if cfg.tolerate != 0 {
                it.allow_errors(&tolerances(cfg.tolerate));
            }
            if let MaxSize::Set(m) = cfg.max_size {
                it.set_max_allowable_tag_size(m);
            }
            if !cfg.eof_close {
                it.emit_master_end_when_eof(false);
            }
            Rd { it }
        })
    }
    pub fn next(&mut self) -> Step {
        match guarded(|| {
            let r = self.it.next();
            let off = self.it.last_emitted_tag_offset();
            (r, off)
        }) {
            Err(p) => Step::Panic(p),
            Ok((None, _)) => Step::Done,
            Ok((Some(Ok(t)), off)) => match guarded(|| from_tag::<T>(&t)) {
                Ok(f) => Step::Item(f, off),
                Err(p) => Step::Panic(p),
            },
            Ok((Some(Err(e)), _)) => Step::Err(norm_err(e)),
        }
    }
    pub fn recover(&mut self) -> Result<Result<(), ErrK>, String> {
        guarded(|| self.it.try_recover().map_err(norm_err))
    }
}

/// Read everything from `src` until the first error or the end; bounded item count.
pub fn read_from<T: Spec, R: Read>(src: R, cfg: &ReadCfg, max_items: usize) -> Vec<Obs> {
    read_from_past::<T, R>(src, cfg, max_items, 0)
}

/// like `read_from`, but keeps calling next() after up to `past` CorruptedTagData errors (the element with the undecodable payload has
/// been consumed, iteration goes on behind it)
pub fn read_from_past<T: Spec, R: Read>(src: R, cfg: &ReadCfg, max_items: usize, past: usize) -> Vec<Obs> {
    let mut data_errors = 0;
    let mut out = Vec::new();
    let mut rd = match Rd::<T, R>::new(src, cfg) {
        Ok(r) => r,
        Err(p) => return vec![Obs::Panic(format!("constructor: {}", p))],
    };
    loop {
        match rd.next() {
            Step::Item(f, o) => {
                out.push(Obs::Item(f, o));
                if out.len() > max_items {
                    out.push(Obs::Runaway(max_items));
                    return out;
                }
            }
            Step::Err(e) => {
                let go_on = matches!(e, ErrK::TagData { .. }) && data_errors < past;
                out.push(Obs::Err(e));
                if !go_on {
                    return out;
                }
                data_errors += 1;
            }
            Step::Done => return out,
            Step::Panic(p) => {
                out.push(Obs::Panic(p));
                return out;
            }
        }
    }
}

pub fn item_bound(len: usize) -> usize {
    4 * len + 64
}

pub fn read_all<T: Spec>(bytes: &[u8], cfg: &ReadCfg) -> Vec<Obs> {
    read_from::<T, &[u8]>(bytes, cfg, item_bound(bytes.len()))
}

// ---------------------------------------------------------------------------------------------
// scripted source

#[derive(Clone, Debug, PartialEq, Eq)]
pub enum RStep {
    /// hand out at most n bytes (over as many read calls as the caller's buffer needs)
    Chunk(usize),
    /// answer Ok(0) once although data remains
    Pause,
    /// answer Err(Other, "inj-<k>") once
    Fail(u32),
}

pub struct ScriptRead<'a> {
    pub data: &'a [u8],
    pub pos: usize,
    pub steps: Vec<RStep>,
    pub idx: usize,
    pub left_in_chunk: usize,
    pub reads: usize,
    pub max_request: usize,
    pub exhausted_seen: bool,
}

impl<'a> ScriptRead<'a> {
    pub fn new(data: &'a [u8], steps: Vec<RStep>) -> Self {
        ScriptRead { data, pos: 0, steps, idx: 0, left_in_chunk: 0, reads: 0, max_request: 0, exhausted_seen: false }
    }
    pub fn script_done(&self) -> bool {
        self.idx >= self.steps.len() && self.left_in_chunk == 0
    }
    pub fn all_delivered(&self) -> bool {
        self.pos >= self.data.len()
    }
}

/// The kind of the injected error number `k`: a source may fail with any kind, and the kind is part of what the caller must get back.
/// (`Interrupted` is left out: `Read` documents it as "retry", so swallowing it is allowed.)
pub fn inj_kind(k: u32) -> io::ErrorKind {
    const KINDS: [io::ErrorKind; 7] = [
        io::ErrorKind::Other,
        io::ErrorKind::UnexpectedEof,
        io::ErrorKind::WouldBlock,
        io::ErrorKind::TimedOut,
        io::ErrorKind::BrokenPipe,
        io::ErrorKind::InvalidData,
        io::ErrorKind::ConnectionReset,
    ];
    KINDS[(k % 7) as usize]
}

impl<'a> Read for ScriptRead<'a> {
    fn read(&mut self, buf: &mut [u8]) -> io::Result<usize> {
        self.reads += 1;
        self.max_request = self.max_request.max(buf.len());
        if buf.is_empty() {
            return Ok(0);
        }
        loop {
            if self.left_in_chunk == 0 {
                match self.steps.get(self.idx) {
                    None => {
                        // script finished: deliver the rest as fast as asked
                        let n = buf.len().min(self.data.len() - self.pos);
                        buf[..n].copy_from_slice(&self.data[self.pos..self.pos + n]);
                        self.pos += n;
                        if n == 0 {
                            self.exhausted_seen = true;
                        }
                        return Ok(n);
                    }
                    Some(RStep::Chunk(n)) => {
                        self.left_in_chunk = *n;
                        self.idx += 1;
                        if *n == 0 {
                            continue;
                        }
                    }
                    Some(RStep::Pause) => {
                        self.idx += 1;
                        return Ok(0);
                    }
                    Some(RStep::Fail(k)) => {
                        let k = *k;
                        self.idx += 1;
                        return Err(io::Error::new(inj_kind(k), format!("inj-{}", k)));
                    }
                }
            }
            let n = buf.len().min(self.left_in_chunk).min(self.data.len() - self.pos);
            if n == 0 {
                // chunk larger than the remaining data
                self.left_in_chunk = 0;
                continue;
            }
            buf[..n].copy_from_slice(&self.data[self.pos..self.pos + n]);
            self.pos += n;
            self.left_in_chunk -= n;
            return Ok(n);
        }
    }
}

// ---------------------------------------------------------------------------------------------
// writer side

#[derive(Clone, Debug, PartialEq, Eq, Hash)]
pub enum WOpt {
    Default,
    Width(u8),
    Unknown,
}

#[derive(Clone, Debug, PartialEq, Eq, Hash)]
pub enum WOp {
    /// write() / write_advanced()
    Write(Flat, WOpt),
    /// the deprecated write_unknown_size()
    UnknownDeprecated(Flat),
    Raw(u64, Vec<u8>),
    Flush,
}

impl WOp {
    pub fn short(&self) -> String {
        match self {
            WOp::Write(f, WOpt::Default) => format!("W({:?})", f),
            WOp::Write(f, WOpt::Width(w)) => format!("W({:?},w{})", f, w),
            WOp::Write(f, WOpt::Unknown) => format!("W({:?},unknown)", f),
            WOp::UnknownDeprecated(f) => format!("WU({:?})", f),
            WOp::Raw(id, d) => format!("Raw({:#x},{})", id, short_bytes(d)),
            WOp::Flush => "Flush".to_string(),
        }
    }
}

pub fn render_ops(ops: &[WOp]) -> String {
    let mut s = ops.iter().map(|o| o.short()).collect::<Vec<_>>().join(" ");
    if s.len() > 1800 {
        let mut cut = 1800;
        while !s.is_char_boundary(cut) {
            cut -= 1;
        }
        s.truncate(cut);
        s.push('…');
    }
    s
}

#[derive(Clone, Debug, PartialEq, Eq)]
pub enum WErr {
    UnexpectedTag { tag_id: u64, path: Vec<u64> },
    TagId(u64),
    TagSize(String),
    UnexpectedClosing { tag_id: u64, expected: Option<u64> },
    Io(io::ErrorKind, String),
    Panic(String),
    /// harness could not construct the tag (spec refused): not a library error
    Construct,
}

impl WErr {
    pub fn is_io(&self) -> bool {
        matches!(self, WErr::Io(..))
    }
    pub fn kind(&self) -> &'static str {
        match self {
            WErr::UnexpectedTag { .. } => "UnexpectedTag",
            WErr::TagId(_) => "TagIdError",
            WErr::TagSize(_) => "TagSizeError",
            WErr::UnexpectedClosing { .. } => "UnexpectedClosingTag",
            WErr::Io(..) => "WriteError",
            WErr::Panic(_) => "Panic",
            WErr::Construct => "Construct",
        }
    }
}

pub fn norm_werr(e: TagWriterError) -> WErr {
    match e {
        TagWriterError::UnexpectedTag { tag_id, current_path } => WErr::UnexpectedTag { tag_id, path: current_path },
        TagWriterError::TagIdError(id) => WErr::TagId(id),
        TagWriterError::TagSizeError(s) => WErr::TagSize(s),
        TagWriterError::UnexpectedClosingTag { tag_id, expected_id } => WErr::UnexpectedClosing { tag_id, expected: expected_id },
        TagWriterError::WriteError { source } => WErr::Io(source.kind(), source.to_string()),
    }
}

/// Recording destination with an optional short-write schedule.
#[derive(Default)]
pub struct RecDest {
    pub buf: Vec<u8>,
    /// per write() call: how many bytes to accept at most; 0 = Interrupted error once; empty/exhausted = accept all
    pub sched: Vec<usize>,
    pub idx: usize,
    pub writes: usize,
    pub flushes: usize,
    pub partial_writes: usize,
    /// true: `write_vectored` gathers from all the buffers it is given (as sockets, pipes and files do), still honouring the schedule;
    /// false: std's default, which hands the first non-empty buffer to `write`
    pub gather: bool,
    pub vectored_calls: usize,
}

impl RecDest {
    pub fn new() -> Self {
        Self::default()
    }
    pub fn with_sched(sched: Vec<usize>) -> Self {
        RecDest { sched, ..Self::default() }
    }
}

impl Write for RecDest {
    fn write(&mut self, b: &[u8]) -> io::Result<usize> {
        self.writes += 1;
        if b.is_empty() {
            return Ok(0);
        }
        let n = match self.sched.get(self.idx) {
            None => b.len(),
            Some(0) => {
                self.idx += 1;
                return Err(io::Error::new(io::ErrorKind::Interrupted, "interrupted"));
            }
            Some(&k) => {
                self.idx += 1;
                k.min(b.len())
            }
        };
        if n < b.len() {
            self.partial_writes += 1;
        }
        self.buf.extend_from_slice(&b[..n]);
        Ok(n)
    }
    fn write_vectored(&mut self, bufs: &[io::IoSlice<'_>]) -> io::Result<usize> {
        self.vectored_calls += 1;
        if !self.gather {
            let first = bufs.iter().find(|b| !b.is_empty()).map_or(&[][..], |b| &**b);
            return self.write(first);
        }
        self.writes += 1;
        let total: usize = bufs.iter().map(|b| b.len()).sum();
        if total == 0 {
            return Ok(0);
        }
        let mut n = match self.sched.get(self.idx) {
            None => total,
            Some(0) => {
                self.idx += 1;
                return Err(io::Error::new(io::ErrorKind::Interrupted, "interrupted"));
            }
            Some(&k) => {
                self.idx += 1;
                k.min(total)
            }
        };
        if n < total {
            self.partial_writes += 1;
        }
        let accepted = n;
        for b in bufs {
            let k = n.min(b.len());
            self.buf.extend_from_slice(&b[..k]);
            n -= k;
            if n == 0 {
                break;
            }
        }
        Ok(accepted)
    }
    fn flush(&mut self) -> io::Result<()> {
        self.flushes += 1;
        Ok(())
    }
}

pub struct Wr<T: Spec> {
    pub w: TagWriter<RecDest>,
    _p: std::marker::PhantomData<T>,
}

impl<T: Spec> Wr<T> {
    pub fn new(dest: RecDest) -> Self {
        Wr { w: TagWriter::new(dest), _p: std::marker::PhantomData }
    }
    pub fn dest(&self) -> &[u8] {
        &self.w.get_ref().buf
    }
    #[allow(deprecated)]
    pub fn apply(&mut self, op: &WOp) -> Result<(), WErr> {
        let r = guarded(|| match op {
            WOp::Write(f, opt) => {
                let Some(tag) = to_tag::<T>(f) else { return Err(WErr::Construct) };
                match opt {
                    WOpt::Default => self.w.write(&tag).map_err(norm_werr),
                    WOpt::Width(w) => self.w.write_advanced(&tag, WriteOptions::set_size_byte_count(*w as usize)).map_err(norm_werr),
                    WOpt::Unknown => self.w.write_advanced(&tag, WriteOptions::is_unknown_sized_element()).map_err(norm_werr),
                }
            }
            WOp::UnknownDeprecated(f) => {
                let Some(tag) = to_tag::<T>(f) else { return Err(WErr::Construct) };
                self.w.write_unknown_size(&tag).map_err(norm_werr)
            }
            WOp::Raw(id, d) => self.w.write_raw(*id, d).map_err(norm_werr),
            WOp::Flush => self.w.flush().map_err(norm_werr),
        });
        match r {
            Ok(x) => x,
            Err(p) => Err(WErr::Panic(p)),
        }
    }
    pub fn finish(mut self) -> Result<Vec<u8>, WErr> {
        match guarded(|| self.w.flush().map_err(norm_werr)) {
            Ok(Ok(())) => {}
            Ok(Err(e)) => return Err(e),
            Err(p) => return Err(WErr::Panic(p)),
        }
        match guarded(move || self.w.into_inner().map_err(norm_werr)) {
            Ok(Ok(d)) => Ok(d.buf),
            Ok(Err(e)) => Err(e),
            Err(p) => Err(WErr::Panic(p)),
        }
    }
}

/// Present a forest to the writer according to each node's `enc`.
pub fn forest_ops(forest: &[Node]) -> Vec<WOp> {
    let mut ops = Vec::new();
    fn opt_of(e: &Enc) -> WOpt {
        if e.unknown {
            WOpt::Unknown
        } else if e.size_w != 0 {
            WOpt::Width(e.size_w)
        } else {
            WOpt::Default
        }
    }
    fn rec(n: &Node, ops: &mut Vec<WOp>) {
        match &n.kind {
            NodeKind::Leaf(p) => ops.push(WOp::Write(Flat::Leaf(n.id, p.clone()), opt_of(&n.enc))),
            NodeKind::Master(ch) => {
                if n.enc.full && !n.enc.unknown {
                    ops.push(WOp::Write(node_to_full(n), opt_of(&n.enc)));
                } else {
                    ops.push(WOp::Write(Flat::Start(n.id), opt_of(&n.enc)));
                    for c in ch {
                        rec(c, ops);
                    }
                    ops.push(WOp::Write(Flat::End(n.id), WOpt::Default));
                }
            }
        }
    }
    for n in forest {
        rec(n, &mut ops);
    }
    ops
}

/// One more accepted presentation of a leaf: `write_raw(id, payload bytes)`, which takes any id and any bytes and validates
/// neither path nor type. Leaves written with default options are replaced with probability num/den by a raw write of
/// the reference payload encoding (`verbatim_only`: only strings, binary and raw-tag payloads, whose bytes the writer copies
/// as they are). Returns the number of replaced ops.
pub fn rawify_ops(t: &mut crate::tape::Tape, ops: &mut [WOp], num: u32, den: u32, verbatim_only: bool) -> usize {
    let mut n = 0;
    for op in ops.iter_mut() {
        let repl = match op {
            WOp::Write(Flat::Leaf(id, p), WOpt::Default) => {
                let verbatim = matches!(p, Payload::S(_) | Payload::B(_) | Payload::Raw(_));
                if (verbatim || !verbatim_only) && t.chance(num, den) {
                    Some(WOp::Raw(*id, crate::refmodel::payload_bytes(p, &Enc::default())))
                } else {
                    None
                }
            }
            _ => None,
        };
        if let Some(r) = repl {
            *op = r;
            n += 1;
        }
    }
    n
}

/// Run ops through a fresh writer over a plain Vec; all must succeed.
pub fn write_ops<T: Spec>(ops: &[WOp]) -> Result<Vec<u8>, (usize, WErr)> {
    let mut w = Wr::<T>::new(RecDest::new());
    for (i, op) in ops.iter().enumerate() {
        w.apply(op).map_err(|e| (i, e))?;
    }
    w.finish().map_err(|e| (ops.len(), e))
}

// ---------------------------------------------------------------------------------------------
// memory safety of the harness itself: a declared size between 4 MiB and the configured limit
// makes the iterator legitimately allocate that much (documented); 16 workers cannot afford it.

pub const SAFE_ALLOC: u64 = 4 << 20;

/// largest size a header-shaped byte sequence (id, then size vint) starting at ANY offset of the input can declare without
/// exceeding `limit`. Every size field the iterator can ever parse follows an id that starts at some input offset, whatever
/// path (recovery, mis-synchronisation after a defect) led there, so this is a sound bound — and much tighter than looking
/// for vints at every offset, because 4-byte ids such as 1A 45 DF A3 are themselves "vints" of hundreds of MiB.
pub fn max_declarable_size(b: &[u8], limit: u64) -> u64 {
    let mut m = 0u64;
    for i in 0..b.len() {
        let id_len = if b[i] == 0 { 1 } else { b[i].leading_zeros() as usize + 1 };
        if i + id_len >= b.len() {
            continue;
        }
        if let crate::refmodel::VintRead::Ok { value, len } = crate::refmodel::ref_read_vint(&b[i + id_len..]) {
            if value != (1u64 << (7 * len)) - 1 && value <= limit && value > m {
                m = value;
            }
        }
    }
    m
}

/// keep the wanted limit only if no header in the input can make the iterator allocate more than SAFE_ALLOC under it
pub fn safe_max_size(b: &[u8], wanted: MaxSize) -> (MaxSize, bool) {
    let limit = match &wanted {
        MaxSize::Untouched => 4_000_000_000u64,
        MaxSize::Set(None) => u64::MAX,
        MaxSize::Set(Some(m)) => *m as u64,
    };
    if limit <= SAFE_ALLOC || max_declarable_size(b, limit) <= SAFE_ALLOC {
        (wanted, false)
    } else {
        (MaxSize::Set(Some(1 << 20)), true)
    }
}
