//! Structure-aware and blind mutations of encoded documents, adversarial headers, and input mixes.

use crate::gen::*;
use crate::model::*;
use crate::refmodel::*;
use crate::tape::Tape;

pub const MUT_NAMES: [&str; 12] = [
    "size_set",
    "id_replace_spec",
    "id_replace_unknown",
    "id_junk",
    "truncate",
    "delete_span",
    "dup_span",
    "flip_payload",
    "move_span",
    "bitflip",
    "splice_random",
    "insert_random",
];

/// one mutation; returns its name
pub fn mutate_once(t: &mut Tape, b: &mut Vec<u8>, lay: &[Lay], spec: &SpecTable) -> &'static str {
    if b.is_empty() || lay.is_empty() {
        b.extend_from_slice(&t.bytes(3));
        return "insert_random";
    }
    let k = t.weighted(&[6, 4, 3, 2, 2, 2, 2, 3, 2, 3, 2, 2]);
    // layout offsets may be stale after an earlier mutation; clamp everything
    let l = &lay[t.below(lay.len())];
    let clamp = |x: usize, b: &Vec<u8>| x.min(b.len());
    match k {
        0 => {
            // rewrite the value of a size field, keeping its width
            let (s, e) = (clamp(l.id_end, b), clamp(l.header_end, b));
            let w = e - s;
            if w >= 1 && w <= 8 {
                let cur = match ref_read_vint(&b[s..e]) {
                    VintRead::Ok { value, .. } => value,
                    _ => 0,
                };
                let maxv = (1u64 << (7 * w)) - 1;
                let nv = match t.below(7) {
                    0 => maxv,
                    1 => cur.wrapping_add(1 + t.below(3) as u64) & maxv,
                    2 => cur.saturating_sub(1 + t.below(3) as u64),
                    3 => 0,
                    4 => maxv - 1,
                    5 => (cur * 2 + 1) & maxv,
                    _ => t.u64() & maxv,
                };
                if let Some(v) = ref_vint(nv, w) {
                    b[s..e].copy_from_slice(&v);
                }
            }
        }
        1 | 2 | 3 => {
            let (s, e) = (clamp(l.tag_start, b), clamp(l.id_end, b));
            let w = e - s;
            if w >= 1 {
                let new: Vec<u8> = match k {
                    1 => {
                        // another spec id of the same byte length if there is one, else any spec id
                        let same: Vec<u64> = spec.elems.iter().map(|x| x.id).filter(|x| id_bytes(*x).len() == w).collect();
                        let id = if !same.is_empty() { same[t.below(same.len())] } else { spec.elems[t.below(spec.elems.len())].id };
                        id_bytes(id)
                    }
                    2 => id_bytes(gen_unknown_id(t, spec)),
                    _ => t.bytes(w),
                };
                b.splice(s..e, new);
            }
        }
        4 => {
            let n = t.below(b.len() + 1);
            b.truncate(n);
        }
        5 => {
            let (s, e) = (clamp(l.tag_start, b), clamp(l.payload_end, b));
            b.drain(s..e);
        }
        6 => {
            let (s, e) = (clamp(l.tag_start, b), clamp(l.payload_end, b));
            let span = b[s..e].to_vec();
            b.splice(e..e, span);
        }
        7 => {
            let (s, e) = (clamp(l.header_end, b), clamp(l.payload_end, b));
            if e > s {
                let i = s + t.below(e - s);
                b[i] = match t.below(4) {
                    0 => 0x00,
                    1 => 0xFF,
                    2 => b[i] ^ (1 << t.below(8)),
                    _ => t.u8(),
                };
            }
        }
        8 => {
            // move an element span to another element boundary
            let (s, e) = (clamp(l.tag_start, b), clamp(l.payload_end, b));
            let span: Vec<u8> = b.drain(s..e).collect();
            let l2 = &lay[t.below(lay.len())];
            let at = clamp(if t.chance(1, 2) { l2.tag_start } else { l2.header_end }, b);
            b.splice(at..at, span);
        }
        9 => {
            let i = t.below(b.len());
            b[i] ^= 1 << t.below(8);
        }
        10 => {
            let i = t.below(b.len());
            let n = 1 + t.below(4);
            let junk = t.bytes(n);
            let e = (i + n).min(b.len());
            b.splice(i..e, junk);
        }
        _ => {
            let i = t.below(b.len() + 1);
            let n = 1 + t.below(6);
            let junk = t.bytes(n);
            b.splice(i..i, junk);
        }
    }
    MUT_NAMES[k]
}

pub fn mutate(t: &mut Tape, bytes: &[u8], lay: &[Lay], spec: &SpecTable) -> (Vec<u8>, Vec<&'static str>) {
    let mut b = bytes.to_vec();
    let n = 1 + t.weighted(&[6, 2, 1]);
    let mut names = Vec::new();
    for _ in 0..n {
        names.push(mutate_once(t, &mut b, lay, spec));
    }
    (b, names)
}

/// adversarial element headers appended/inserted: zero-length numerics, 8-byte ids and sizes,
/// all-ones sizes of every width, sizes near 2^56, first byte 0x00
pub fn adversarial_stream(t: &mut Tape, spec: &SpecTable) -> Vec<u8> {
    let mut b = Vec::new();
    let n = 1 + t.below(6);
    for _ in 0..n {
        let e = &spec.elems[t.below(spec.elems.len())];
        let id = match t.weighted(&[8, 1, 1, 1]) {
            0 => id_bytes(e.id),
            1 => id_bytes(gen_unknown_id(t, spec)),
            2 => vec![0x00],
            _ => id_bytes(mk_id(8, 1 + t.below(100) as u64)),
        };
        b.extend_from_slice(&id);
        let w = 1 + t.below(8);
        let maxv = (1u64 << (7 * w)) - 1;
        let sz = match t.weighted(&[4, 3, 2, 2, 2, 2]) {
            0 => 0,
            1 => maxv,
            2 => maxv - 1,
            3 => t.below(12) as u64,
            4 => 9 + t.below(3) as u64,
            _ => t.u64() & maxv,
        }
        .min(maxv);
        b.extend_from_slice(&ref_vint(sz, w).unwrap());
        let present = match t.below(3) {
            0 => 0,
            1 => (sz.min(12)) as usize,
            _ => t.below(10),
        };
        b.extend_from_slice(&t.bytes(present));
    }
    b
}

#[derive(Clone, Copy, Debug, PartialEq, Eq)]
pub enum Origin {
    Valid,
    NonCanonical,
    Mutated,
    Blind,
    Adversarial,
    MidDocument,
}

impl Origin {
    pub fn label(self) -> &'static str {
        match self {
            Origin::Valid => "input_valid",
            Origin::NonCanonical => "input_noncanonical",
            Origin::Mutated => "input_mutated",
            Origin::Blind => "input_random_bytes",
            Origin::Adversarial => "input_adversarial_headers",
            Origin::MidDocument => "input_mid_document",
        }
    }
}

pub struct MixedInput {
    pub spec: SpecChoice,
    pub forest: Vec<Node>,
    pub bytes: Vec<u8>,
    pub origin: Origin,
    pub mutations: Vec<&'static str>,
    /// offset in the original encoding at which a mid-document input starts
    pub mid_start: usize,
}

/// A document nested far deeper than the generated trees ever are (28 .. 300 masters), over a recursive template specification
/// (Root; Node at Root/(0-); Leaf, Blob at Root/(0-)/Node; Count at Root) or — one case in four — over a generated one, where such nesting
/// is a hierarchy problem from the second level on and needs tolerance to be read at all.  The innermost 0-3 masters have unknown size and
/// are followed by a sibling at a drawn outer level; `valid_only` keeps every size known and every element where its path allows it.
pub fn gen_deep(t: &mut Tape, valid_only: bool) -> MixedInput {
    use PathPart::{Global as G, Id};
    let recursive = valid_only || !t.chance(1, 4);
    let spec = if recursive {
        let node = vec![Id(0x81), G((Some(0), None))];
        let mut in_node = node.clone();
        in_node.push(Id(0x82));
        let s = std::rc::Rc::new(SpecTable::new(vec![
            Elem { id: 0x81, ty: Ty::Master, path: vec![], name: "Root".into() },
            Elem { id: 0x82, ty: Ty::Master, path: node, name: "Node".into() },
            Elem { id: 0x83, ty: Ty::U, path: in_node.clone(), name: "Leaf".into() },
            Elem { id: 0x84, ty: Ty::B, path: in_node, name: "Blob".into() },
            Elem { id: 0x85, ty: Ty::U, path: vec![Id(0x81)], name: "Count".into() },
            Elem { id: 0xEC, ty: Ty::B, path: vec![G((None, None))], name: "Void".into() },
            Elem { id: 0xBF, ty: Ty::B, path: vec![G((Some(1), None))], name: "Crc32".into() },
        ]));
        crate::dynspec::set_current(s.clone());
        SpecChoice::Dyn(s)
    } else {
        gen_spec_choice(t, SpecOpts::default())
    };
    let table = spec.table().clone();
    let masters = table.masters();
    let depth = match t.below(6) {
        0 => 28 + t.below(8),
        1 => 60 + t.below(8),
        2 => 62 + t.below(5),
        3 => 100 + t.below(40),
        4 => 250 + t.below(60),
        _ => 30 + t.below(5),
    };
    let leaves: Vec<&Elem> = table.elems.iter().filter(|e| e.ty != Ty::Master).collect();
    let leaf_node = |t: &mut Tape| -> Node {
        if recursive {
            if t.chance(1, 2) { Node::leaf(0x83, Payload::U(t.below(1000) as u64)) } else { let n = t.below(20); Node::leaf(0x84, Payload::B(t.filler(n))) }
        } else if leaves.is_empty() {
            Node::leaf(0xEC, Payload::B(vec![0]))
        } else {
            let e = leaves[t.below(leaves.len())];
            Node::leaf(e.id, match e.ty { Ty::U => Payload::U(7), Ty::I => Payload::I(-7), Ty::F => Payload::F(1.5f64.to_bits()), Ty::S => Payload::S("x".into()), _ => Payload::B(vec![1, 2, 3]) })
        }
    };
    let pick_master = |t: &mut Tape| -> u64 { if recursive { 0x82 } else if masters.is_empty() { 0xEC } else { masters[t.below(masters.len())] } };
    let unknown_inner = if valid_only { 0 } else { t.below(4) };
    let sibling_level = t.below(depth.max(1));
    // inside-out
    let mut cur: Vec<Node> = vec![leaf_node(t)];
    if t.chance(1, 2) {
        cur.push(leaf_node(t));
    }
    for level in (0..depth).rev() {
        let mut m = Node::master(pick_master(t), cur);
        if depth - 1 - level < unknown_inner {
            m.enc.unknown = true;
            m.enc.size_w = 8;
        } else if !valid_only && t.chance(1, 10) {
            m.enc.size_w = 1 + t.below(8) as u8;
        }
        cur = vec![m];
        if level == sibling_level || t.chance(1, 12) {
            // something after the nested master at this level: a sibling master with a leaf, or a leaf
            if t.chance(1, 2) {
                let l = leaf_node(t);
                cur.push(Node::master(pick_master(t), vec![l]));
            } else {
                cur.push(leaf_node(t));
            }
        }
    }
    let mut forest = if recursive {
        let mut top = cur;
        if t.chance(1, 2) {
            top.push(Node::leaf(0x85, Payload::U(3)));
        }
        vec![Node::master(0x81, top)]
    } else {
        cur
    };
    fix_widths(&mut forest);
    let (bytes, lay) = ref_encode(&forest);
    let (bytes, origin, mutations) = if !valid_only && t.chance(1, 3) {
        let (b, m) = mutate(t, &bytes, &lay, &table);
        (b, Origin::Mutated, m)
    } else {
        (bytes, Origin::Valid, vec![])
    };
    MixedInput { spec, forest, bytes, origin, mutations, mid_start: 0 }
}

#[derive(Clone, Copy)]
pub struct MixOpts {
    pub weights: [u32; 6],
    pub tree: TreeOpts,
    pub spec: SpecOpts,
}

impl Default for MixOpts {
    fn default() -> Self {
        MixOpts {
            weights: [3, 3, 6, 1, 2, 2],
            tree: TreeOpts { max_nodes: 30, pay: PayOpts { big_left: 0, huge: false, max_small: 24 }, ..TreeOpts::default() },
            spec: SpecOpts::default(),
        }
    }
}

/// The input mix used by the reader properties: valid / non-canonical / mutated / random / adversarial / mid-document
pub fn gen_mixed(t: &mut Tape, o: MixOpts) -> MixedInput {
    let spec = gen_spec_choice(t, o.spec);
    let kind = t.weighted(&o.weights);
    let mut to = o.tree;
    to.deep = t.chance(1, 2);
    let mut forest = gen_forest(t, spec.table(), to);
    let noncanon = kind != 0;
    assign_enc(t, &mut forest, EncOpts { widths: true, unknown: true, full: false, noncanonical: noncanon });
    sanitize_unknown(spec.table(), &mut forest, false);
    fix_widths(&mut forest);
    let (bytes, lay) = ref_encode(&forest);
    let table = spec.table().clone();
    let (bytes, origin, mutations, mid_start) = match kind {
        0 => (bytes, Origin::Valid, vec![], 0),
        1 => (bytes, Origin::NonCanonical, vec![], 0),
        2 => {
            let (b, m) = mutate(t, &bytes, &lay, &table);
            (b, Origin::Mutated, m, 0)
        }
        3 => {
            let n = t.below(40);
            (t.bytes(n), Origin::Blind, vec![], 0)
        }
        4 => {
            let mut b = if t.chance(1, 2) { bytes.clone() } else { Vec::new() };
            let adv = adversarial_stream(t, &table);
            let at = if b.is_empty() { 0 } else { lay[t.below(lay.len())].tag_start.min(b.len()) };
            b.splice(at..at, adv);
            (b, Origin::Adversarial, vec![], 0)
        }
        _ => {
            // suffix starting at the tag_start of a non-root element
            let inner: Vec<&Lay> = lay.iter().filter(|l| l.depth > 0).collect();
            if inner.is_empty() {
                (bytes, Origin::Valid, vec![], 0)
            } else {
                let l = inner[t.below(inner.len())];
                let s = l.tag_start;
                let sub = bytes[s..].to_vec();
                if t.chance(1, 3) {
                    let shifted: Vec<Lay> = lay
                        .iter()
                        .filter(|x| x.tag_start >= s)
                        .map(|x| {
                            let mut y = x.clone();
                            y.tag_start -= s;
                            y.id_end -= s;
                            y.header_end -= s;
                            y.payload_end -= s;
                            y
                        })
                        .collect();
                    let (b, m) = mutate(t, &sub, &shifted, &table);
                    (b, Origin::MidDocument, m, s)
                } else {
                    (sub, Origin::MidDocument, vec![], s)
                }
            }
        }
    };
    MixedInput { spec, forest, bytes, origin, mutations, mid_start }
}

pub fn describe_mixed(m: &MixedInput) -> String {
    format!(
        "{:?}{:?} spec[{}] {} | base doc {} | input({}): {}",
        m.origin,
        m.mutations,
        if m.spec.is_rich() { "RichSpec" } else { "generated" },
        crate::props::common::spec_brief(m.spec.table()),
        render_forest(&m.forest),
        m.bytes.len(),
        hex(&m.bytes[..m.bytes.len().min(256)])
    )
}
