// Copies the generated declarations (path in EBV_BATCH_SRC) into OUT_DIR; an empty batch when unset.
use std::path::PathBuf;
fn main() {
    println!("cargo:rerun-if-env-changed=EBV_BATCH_SRC");
    let out = PathBuf::from(std::env::var("OUT_DIR").unwrap()).join("generated.rs");
    match std::env::var("EBV_BATCH_SRC") {
        Ok(p) if !p.is_empty() => {
            println!("cargo:rerun-if-changed={}", p);
            std::fs::copy(&p, &out).expect("copy generated batch");
        }
        _ => std::fs::write(&out, "pub fn run_all(_out: &mut Vec<String>) {}\n").unwrap(),
    }
}
