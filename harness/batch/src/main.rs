//! Compiled engine of C18: declarations that went through the REAL proc-macros and rustc are
//! checked at run time against the table they were generated from.

use std::rc::Rc;

use ebml_iterable::specs::{Master, PathPart, TagDataType};
use ebv_core::drive::*;
use ebv_core::dynspec::{from_tag, lib_to_ty, Spec};
use ebv_core::model::*;
use ebv_core::refmodel::*;
use ebv_core::runner::guarded;

#[derive(Clone, Copy)]
pub enum P {
    Id(u64),
    G(Option<u64>, Option<u64>),
}

pub struct Row {
    pub name: &'static str,
    pub id: u64,
    /// 0 Master 1 U 2 I 3 S 4 B 5 F
    pub ty: u8,
    pub path: &'static [P],
}

fn ty_of(c: u8) -> Ty {
    Ty::ALL[c as usize]
}

fn table_of(rows: &[Row]) -> SpecTable {
    let mut elems: Vec<Elem> = rows
        .iter()
        .map(|r| Elem {
            id: r.id,
            ty: ty_of(r.ty),
            path: r.path.iter().map(|p| match p { P::Id(x) => PathPart::Id(*x), P::G(a, b) => PathPart::Global((*a, *b)) }).collect(),
            name: r.name.to_string(),
        })
        .collect();
    elems.push(Elem { id: 0xbf, ty: Ty::B, path: vec![PathPart::Global((Some(1), None))], name: "Crc32".into() });
    elems.push(Elem { id: 0xec, ty: Ty::B, path: vec![PathPart::Global((None, None))], name: "Void".into() });
    SpecTable::new(elems)
}

fn sample(ty: Ty) -> Payload {
    match ty {
        Ty::U => Payload::U(300),
        Ty::I => Payload::I(-300),
        Ty::F => Payload::F(2.5f64.to_bits()),
        Ty::S => Payload::S("héllo".into()),
        Ty::B => Payload::B(vec![0, 1, 2, 255]),
        Ty::Master => unreachable!(),
    }
}

fn accessors<T: Spec>(t: &T) -> [bool; 6] {
    [t.as_master().is_some(), t.as_unsigned_int().is_some(), t.as_signed_int().is_some(), t.as_utf8().is_some(), t.as_binary().is_some(), t.as_float().is_some()]
}

fn construct<T: Spec>(ty: Ty, id: u64) -> Option<T> {
    match ty {
        Ty::Master => T::get_master_tag(id, Master::Start),
        Ty::U => T::get_unsigned_int_tag(id, 300),
        Ty::I => T::get_signed_int_tag(id, -300),
        Ty::S => T::get_utf8_tag(id, "héllo".to_string()),
        Ty::B => T::get_binary_tag(id, &[0, 1, 2, 255]),
        Ty::F => T::get_float_tag(id, 2.5),
    }
}

fn check<T: Spec>(rows: &[Row]) -> Result<u64, String> {
    let spec = Rc::new(table_of(rows));
    let mut checks = 0u64;
    let mut probes: Vec<u64> = vec![0, 1, 0x80, 0xff, 1 << 56, u64::MAX, 0xbf, 0xec];
    for e in &spec.elems {
        probes.push(e.id);
        probes.push(e.id.wrapping_add(1));
        probes.push(e.id.wrapping_sub(1));
    }
    probes.sort();
    probes.dedup();
    for &id in &probes {
        let want = spec.get(id);
        let got_ty = T::get_tag_data_type(id).map(lib_to_ty);
        if got_ty != want.map(|e| e.ty) {
            return Err(format!("get_tag_data_type({:#x}) = {:?}, declared {:?}", id, got_ty, want.map(|e| e.ty)));
        }
        let got_path = T::get_path_by_id(id);
        let want_path: &[PathPart] = want.map(|e| &e.path[..]).unwrap_or(&[]);
        if got_path != want_path {
            return Err(format!("get_path_by_id({:#x}) = {}, declared {}", id, render_path(got_path), render_path(want_path)));
        }
        for ty in Ty::ALL {
            let c = construct::<T>(ty, id);
            let should = want.map(|e| e.ty) == Some(ty);
            match (&c, should) {
                (Some(tag), true) => {
                    if tag.get_id() != id {
                        return Err(format!("{:?} constructor for {:#x} returns a tag whose get_id() is {:#x}", ty, id, tag.get_id()));
                    }
                    let acc = accessors(tag);
                    let idx = Ty::ALL.iter().position(|t| *t == ty).unwrap();
                    let accidx = [0usize, 1, 2, 3, 4, 5][idx];
                    for k in 0..6 {
                        if acc[k] != (k == accidx) {
                            return Err(format!("tag {:#x} of type {:?}: accessor #{} returns {}", id, ty, k, if acc[k] { "Some" } else { "None" }));
                        }
                    }
                    let f = from_tag::<T>(tag);
                    let wantf = if ty == Ty::Master { Flat::Start(id) } else { Flat::Leaf(id, sample(ty)) };
                    if f != wantf {
                        return Err(format!("tag {:#x} constructed with a {:?} payload reads back as {:?}", id, ty, f));
                    }
                }
                (None, false) => {}
                (Some(_), false) => return Err(format!("{:?} constructor accepts id {:#x}, which is {}", ty, id, want.map(|e| format!("declared as {:?}", e.ty)).unwrap_or("not declared".into()))),
                (None, true) => return Err(format!("{:?} constructor refuses id {:#x} although it is declared with that type", ty, id)),
            }
            checks += 1;
        }
        // raw tag
        let r = T::get_raw_tag(id, &[9, 8, 7]);
        if r.get_id() != id || r.as_binary() != Some(&[9u8, 8, 7][..]) || accessors(&r) != [false, false, false, false, true, false] {
            return Err(format!("get_raw_tag({:#x}) does not behave as a raw binary tag", id));
        }
        checks += 1;
    }
    // built-ins
    if T::get_tag_data_type(0xbf) != Some(TagDataType::Binary) || T::get_tag_data_type(0xec) != Some(TagDataType::Binary) {
        return Err("Crc32 / Void were not added".into());
    }
    // used with the iterator and the writer: every element, alone (mid-document read seeds its implied parents) and written under its chain
    for e in &spec.elems {
        let node = if e.ty == Ty::Master { Node::master(e.id, vec![]) } else { Node::leaf(e.id, sample(e.ty)) };
        let (bytes, _) = ref_encode(std::slice::from_ref(&node));
        let obs = read_all::<T>(&bytes, &ReadCfg::strict());
        let mut want = flatten(std::slice::from_ref(&node));
        if !e.is_global() {
            for p in e.path.iter().rev() {
                if let PathPart::Id(x) = p {
                    want.push(Flat::End(*x));
                }
            }
        }
        if first_err(&obs).is_some() || items_of(&obs) != want {
            return Err(format!("reading element {:#x} on its own gives {} (expected {:?})", e.id, render_obs(&obs), want));
        }
        checks += 1;
        // writer: open a chain that instantiates the declared path (placeholders with their minimum, any master)
        let any_master = spec.elems.iter().find(|m| m.ty == Ty::Master).map(|m| m.id);
        let mut chain: Vec<u64> = Vec::new();
        let mut possible = true;
        for p in &e.path {
            match p {
                PathPart::Id(x) => chain.push(*x),
                PathPart::Global((min, _)) => {
                    for _ in 0..min.unwrap_or(0) {
                        match any_master {
                            Some(m) => chain.push(m),
                            None => possible = false,
                        }
                    }
                }
            }
        }
        if possible {
            let mut ops: Vec<WOp> = chain.iter().map(|id| WOp::Write(Flat::Start(*id), WOpt::Unknown)).collect();
            ops.push(WOp::Write(if e.ty == Ty::Master { Flat::Full(e.id, vec![]) } else { Flat::Leaf(e.id, sample(e.ty)) }, WOpt::Default));
            match write_ops::<T>(&ops) {
                Ok(_) => {}
                Err((k, err)) => return Err(format!("writing element {:#x} under the chain {:x?} its declared path allows failed at call {}: {:?}", e.id, chain, k, err)),
            }
            checks += 1;
        }
    }
    Ok(checks)
}

pub fn run_one<T: Spec>(index: usize, front: &str, rows: &[Row]) -> String {
    match guarded(|| check::<T>(rows)) {
        Ok(Ok(n)) => format!("DECL {} {} OK {}", index, front, n),
        Ok(Err(m)) => format!("DECL {} {} FAIL {}", index, front, m.replace('\n', " | ")),
        Err(p) => format!("DECL {} {} FAIL panic: {}", index, front, p.replace('\n', " | ")),
    }
}

include!(concat!(env!("OUT_DIR"), "/generated.rs"));

fn main() {
    ebv_core::runner::install_quiet_panic_hook();
    let mut out = Vec::new();
    run_all(&mut out);
    for l in out {
        println!("{}", l);
    }
    println!("BATCH DONE");
}
