//! ebv — entry point used by /verif/check.
//!   ebv <ID> quick|thorough          run the property's check, write evidence/<ID>.json
//!   ebv <ID> --replay <file>         re-run one saved input (plain regression check, no proptest)
//! exit 0 = held on everything explored; 1 = VIOLATION printed; 2 = inconclusive (health gate, harness problem)

use std::path::PathBuf;

#[global_allocator]
static GLOBAL: ebv_core::allocstat::CountingAlloc = ebv_core::allocstat::CountingAlloc;

use ebv_core::props::{registry, PropDef};
use ebv_core::runner::*;

fn root() -> PathBuf {
    std::env::var("VERIF_ROOT").map(PathBuf::from).unwrap_or_else(|_| PathBuf::from("/verif"))
}

fn find_stage<'a>(p: &'a PropDef, name: &str) -> Option<&'a Stage> {
    p.stages.iter().find(|s| s.name == name)
}

fn cut(s: &str, n: usize) -> String {
    s.chars().take(n).collect()
}

fn main() {
    let args: Vec<String> = std::env::args().collect();
    if args.len() < 3 {
        eprintln!("usage: ebv <ID> quick|thorough | ebv <ID> --replay <file>");
        std::process::exit(2);
    }
    ebv_core::allocstat::trace_from_env();
    install_quiet_panic_hook();
    let reg = registry();
    let Some(prop) = reg.iter().find(|p| p.id == args[1]) else {
        eprintln!("unknown property {}", args[1]);
        std::process::exit(2);
    };
    let root = root();
    if args[2] == "--replay" {
        let Some(path) = args.get(3) else {
            eprintln!("--replay needs a file");
            std::process::exit(2);
        };
        std::process::exit(replay_cmd(prop, &root, path));
    }
    let tier = match args[2].as_str() {
        "quick" => Tier::Quick,
        "thorough" => Tier::Thorough,
        other => {
            eprintln!("unknown tier {}", other);
            std::process::exit(2);
        }
    };
    let seed: u64 = std::env::var("VERIF_SEED").ok().and_then(|s| s.trim().parse().ok()).unwrap_or(1);
    let mut rc = RunCtx::new(prop.id, tier, seed, root.clone());
    let known = load_known_findings(&root);

    // 1. replay every committed finding of this property first
    let mut violations: Vec<(String, PathBuf)> = Vec::new();
    let fdir = root.join("findings");
    let mut files: Vec<PathBuf> = std::fs::read_dir(&fdir)
        .map(|d| d.filter_map(|e| e.ok()).map(|e| e.path()).collect())
        .unwrap_or_default();
    files.sort();
    let mut replayed = 0;
    for f in files {
        let name = f.file_name().unwrap().to_string_lossy().to_string();
        if !name.starts_with(&format!("{}-", prop.id)) || !name.ends_with(".json") {
            continue;
        }
        let rel = format!("findings/{}", name);
        let rf = match read_replay(&f) {
            Ok(r) => r,
            Err(e) => {
                rc.inconclusive.push(e);
                continue;
            }
        };
        let Some(stage) = find_stage(prop, &rf.stage) else {
            rc.inconclusive.push(format!("{}: unknown stage {}", rel, rf.stage));
            continue;
        };
        replayed += 1;
        let (res, now) = replay_stage(stage, &rf.input, true);
        // a tape is only as good as the generator that decodes it: say so when a later generator change gave a pinned tape another meaning
        if let (Input::Tape(_), Some(then), Some(now)) = (&rf.input, &rf.rendered, &now) {
            if then != now {
                let note = format!("pinned input {} no longer decodes to the case it was recorded for (the generator changed since); recorded: {} | now: {}", rel, cut(then, 120), cut(now, 120));
                println!("NOTE: {}", note);
                rc.notes.push(note);
            }
        }
        let open = known.iter().find(|k| k.open && k.property == prop.id && k.replay.as_deref() == Some(rel.as_str()));
        match (res, open) {
            (Err(_), Some(k)) => {
                let line = format!("KNOWN-FINDING: property={} {} (replay={})", prop.id, k.text, rel);
                println!("{}", line);
                rc.known_lines.push(line);
            }
            (Err(m), None) => {
                println!("finding {} fails again: {}", rel, m);
                violations.push((m, f.clone()));
            }
            (Ok(()), Some(_)) => {
                rc.notes.push(format!("open finding {} does not reproduce any more", rel));
                println!("NOTE: open finding {} does not reproduce any more", rel);
            }
            (Ok(()), None) => {}
        }
    }
    rc.notes.push(format!("{} committed finding file(s) replayed first", replayed));

    // 2. the search
    if violations.is_empty() {
        (prop.run)(&mut rc);
    }

    // 3. verdict
    for f in rc.failures.clone() {
        // is this exactly an open finding's pinned input?
        let mut matched = None;
        for k in known.iter().filter(|k| k.open && k.property == prop.id) {
            if let Some(r) = &k.replay {
                if let Ok(rf) = read_replay(&root.join(r)) {
                    if rf.stage == f.stage && rf.input == f.input {
                        matched = Some(k);
                    }
                }
            }
        }
        if let Some(k) = matched {
            let line = format!("KNOWN-FINDING: property={} {}", prop.id, k.text);
            println!("{}", line);
            rc.known_lines.push(line);
            continue;
        }
        if f.message.starts_with("PANIC escaped the case function") || f.message.starts_with("proptest aborted") {
            // every call into the code under test is made under catch_unwind: an escaped panic is a bug of the harness itself
            let p = write_replay(&root, "replays", prop.id, &f, None);
            rc.inconclusive.push(format!("harness bug in stage {} ({}): {}", f.stage, p.display(), f.message));
            continue;
        }
        let rendered = find_stage(prop, f.stage).and_then(|s| replay_stage(s, &f.input, true).1);
        let p = write_replay(&root, "replays", prop.id, &f, rendered.clone());
        println!("stage {}: {}", f.stage, f.message);
        if let Some(r) = rendered {
            println!("case: {}", r);
        }
        violations.push((f.message.clone(), p));
    }
    let ev = evidence_json(&rc, prop.rule, prop.assumptions, violations.len() as u64);
    let edir = root.join("evidence");
    let _ = std::fs::create_dir_all(&edir);
    if let Err(e) = std::fs::write(edir.join(format!("{}.json", prop.id)), serde_json::to_string_pretty(&ev).unwrap()) {
        eprintln!("cannot write evidence: {}", e);
        std::process::exit(2);
    }
    for (name, s) in &rc.stages {
        println!(
            "  stage {:<28} {:>10} evaluations, {:>9} distinct non-trivial, {:>11} oracle checks, {:>6.1}s{}",
            name,
            s.evaluations,
            s.distinct_nontrivial(),
            s.checks,
            s.wall_s,
            if s.exhaustive { " (exhaustive)" } else { "" }
        );
    }
    if !violations.is_empty() {
        for (_, p) in &violations {
            println!("VIOLATION property={} replay={}", prop.id, p.display());
        }
        std::process::exit(1);
    }
    if !rc.inconclusive.is_empty() {
        for m in &rc.inconclusive {
            println!("INCONCLUSIVE property={} {}", prop.id, m);
        }
        std::process::exit(2);
    }
    println!(
        "OK property={} tier={} seed={} evaluations={} distinct_nontrivial={} wall={:.1}s",
        prop.id,
        if rc.quick() { "quick" } else { "thorough" },
        seed,
        rc.total_evaluations(),
        rc.total_distinct_nontrivial(),
        rc.start.elapsed().as_secs_f64()
    );
}

fn replay_cmd(prop: &PropDef, root: &PathBuf, path: &str) -> i32 {
    let p = if std::path::Path::new(path).is_absolute() { PathBuf::from(path) } else { root.join(path) };
    let p = if p.exists() { p } else { PathBuf::from(path) };
    let rf = match read_replay(&p) {
        Ok(r) => r,
        Err(e) => {
            eprintln!("{}", e);
            return 2;
        }
    };
    let Some(stage) = find_stage(prop, &rf.stage) else {
        eprintln!("unknown stage {} for {}", rf.stage, prop.id);
        return 2;
    };
    let (res, rendered) = replay_stage(stage, &rf.input, true);
    if let Some(r) = rendered {
        println!("case: {}", r);
    }
    match res {
        Ok(()) => {
            println!("replay passes: property={} stage={}", prop.id, rf.stage);
            0
        }
        Err(m) => {
            println!("{}", m);
            println!("VIOLATION property={} replay={}", prop.id, p.display());
            1
        }
    }
}
