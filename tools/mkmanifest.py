#!/usr/bin/env python3
"""Regenerate /verif/MANIFEST.json from the table below (kept next to the checks so it stays current)."""
import json, os, sys
ROOT = os.path.dirname(os.path.dirname(os.path.abspath(__file__)))

# id -> (technique, level text, level note, design ref)
CLAIMED = {
 "C18": ("proptest over generated declarations (programs) in both macro syntaxes: in-process run of the macro's own source + syn-based interpretation of the generated tables, systematic one-edit broken declarations, and a compiled batch through the real proc-macros and rustc checked by a generic run-time driver",
         "4 000 valid + 8 000 broken declarations in-process (quick; 150 000 + 300 000 thorough): both front ends succeed with token-identical output whose tables equal the declaration plus Crc32/Void/RawTag; attribute order per variant (all 6 orders of id / data_type / doc_path), variant order and — in half of the declarations — variant names over a two-letter alphabet (so that names are concatenations of other names) are generated too; each of 14 kinds of broken declaration is rejected. 1 (quick) / 8 (thorough) batches of 24 declarations are compiled through #[ebml_specification] and easy_ebml! and every trait function is checked for declared and probe ids, every accessor, raw tags, and iterator/writer use; 2 / 6 crates with an unknown attribute on a variant must fail to compile.",
         "trusted: syn parse of the generated code; the declaration table emitted next to each compiled declaration; rustc", "4.18"),
 "C20": ("exhaustive enumeration of every partition of small inputs + proptest over (input, async read partition, Poll::Pending pattern, buffered set) with a harness-owned scripted AsyncRead on block_on; differential oracle against the blocking iterator; libFuzzer on the same stage (thorough)",
         "every composition (2^(n-1) partitions) of 80 (quick) / 250 (thorough) small documents of up to 12 / 15 bytes, with and without Pending polls and buffered masters, plus 320 000 (quick) / 2 M (thorough) random partitions of generated, mutated and adversarial inputs (1-byte reads, reads that end inside ids, sizes and payloads, 1 in 12 inputs larger than the 64 KiB transfer buffer, all buffered sets), plus the two pinned inputs of the repaired defect D14: items, offsets, errors (both iterators are driven past up to three undecodable payloads) and termination (None exactly once, and again afterwards) must equal the blocking iterator over the whole slice; next() and into_stream() both driven.",
         "trusted: the blocking iterator as reference (anchored by C01/C03/C04/C12); single-threaded harness-owned polling, real executors' timing is out of scope; behaviour after a source I/O error is outside the statement", "4.20"),
 "C02": ("proptest over accepted byte streams (canonical, non-canonical reference encodings, structure-aware and blind mutations); fixpoint oracle read(write(read(b))) == read(b)",
         "800 000 (quick) / 4 M (thorough) generated streams; those the strict reader accepts from a root element (acceptance rate of mutated streams measured, gate >= 10%) are re-written item by item through TagWriter::write (every call must be Ok) and re-read; the two item sequences must be identical (floats by bits). In a third of the cases the stream is also read with a generated set of buffered masters and those Full items are handed back to the writer: the re-read must again equal the first (unbuffered) reading.",
         "trusted: nothing beyond the harness drivers; rejected streams are outside the property", "4.2"),
 "C13": ("proptest documents with one injected fault of each class × exhaustive enumeration of all 8 tolerance subsets; plus mutated inputs × 8 subsets (metamorphic prefix relation); exhaustive size-limit threshold table",
         "160 000 + 160 000 (quick) / 800 000 + 800 000 (thorough) inputs, each read under all 8 subsets of tolerated classes (a third of the cases a second time with the classes handed to allow_errors() in reverse order and each twice: same observations): own-class error kind at the fault's offset when not tolerated, never when tolerated, no raw tags without InvalidTagIds, strict items are a prefix of tolerant items; the size limit's threshold (M passes, M+1 fails, default 4e9 untouched) is enumerated first, on master headers, for 6 limits × 5 sizes × 3 widths × all 8 tolerance subsets × {root, inside a known-size parent it overruns, inside an unknown-size parent}: no tolerance switch relaxes the limit.",
         "trusted: reference encoder layout for the fault's offset; faults are built so that the other classes' conditions are false at the faulty element", "4.13"),
 "C14": ("proptest documents × exhaustive enumeration of every tag boundary as junk insertion point; oracle = undamaged parse shifted by the junk length, precondition decided from the reference layout",
         "48 000 (quick) / 250 000 (thorough) known-size documents, junk of 1-12 bytes, one run in five of 13-50 bytes, a third of the runs all zeroes or ending in zeroes (byte values that start no declared id) inserted at every boundary between two tags and at one random position; read from a slice or in short reads, with a small or default buffer, strictly or with hierarchy / oversized-element errors tolerated (never invalid ids: junk stays junk); with the precondition true: same prefix, exactly one error, try_recover Ok, rest identical with shifted offsets; always: no panic, only EOF/read errors from try_recover, never backwards.",
         "trusted: reference encoder layout for the precondition; the undamaged parse (anchored by C01/C03)", "4.14"),
 "C17": ("proptest over element headers with adversarial declared sizes × limits × capacities × tolerance, measured with a counting global allocator (thread-local peak); oracle = explicit byte bounds",
         "200 000 + 200 000 + 320 000 (quick) / 1 M + 1 M + 1.5 M (thorough) cases (a first pass with every declared size <= 64 MiB, so that a limit that is not enforced costs measurable megabytes rather than the process; then the whole range): a header declaring S in every representable width at root / inside known / inside unknown-size parents under limit M: S > M must be rejected with peak heap growth <= 2·cap + 4 KiB and no oversized read request — also when next() is simply called again after the size error; S <= M with missing payload <= 4·max(S,cap) + 4 KiB + payload present; whole parses of generated / mutated / adversarial streams under limit M <= 4·max(M,cap) + 8 KiB (the factor 4 is what a moving realloc of the doubling Vec costs, DESIGN 14.7); 16 000 (quick) / 60 000 (thorough) long streams of elements just within the limit: memory must not creep up.",
         "trusted: the counting allocator (thread-local); declared sizes within the limit are capped at 4 MiB for cost; only heap is measured", "4.17"),
 "C09": ("proptest over (forest, collapse choices, per-element options, short-write schedule); paired-run byte equality + reference header walk of the output",
         "320 000 (quick) / 1.5 M (thorough) generated documents (one in 40 with a payload of 64 KiB or more) are written in paired presentations (Full vs Start/End — masters inside a Full item given as nested Full or as Start/End children of it —, deprecated vs option-based unknown size, explicit widths vs defaults, scripted short-write destination vs Vec); outputs must be byte-identical, explicit widths are read back with the reference header parser and ids/payloads must be unchanged.",
         "trusted: ref_header walk; widths drawn from those that fit", "4.9"),
 "C10": ("model-based proptest: generated valid call sequences, invariant checked after every call against a model of the open stack and the strict iterator over the destination",
         "320 000 (quick) / 1.5 M (thorough) call sequences (one in 40 with a payload of 64 KiB or more); after each call: destination only grows and is a prefix of the final output; after a completed write with no known-size master open the destination parses to exactly the accepted tags (+ Ends of open unknown-size masters); nothing of an open known-size master is handed over; flush()/into_inner() closes and delivers everything. A third of the sequences contain calls that must be refused (the kinds of C19), a third hand some leaves over through write_raw(); second stage (80 000 / 400 000 cases): a master End refused for its width leaves the master open, so nothing of it may reach the destination whatever the following calls return.",
         "trusted: the model in the harness, the iterator as a parser of the destination (anchored by C03/C06/C12), ref_header walk for offsets in the final output", "4.10"),
 "C11": ("proptest specs × constructed chains × exhaustive enumeration of every spec element under every chain prefix, writer and reader; oracle = backtracking reference matcher ref_match (+ ref_closes for unknown-size chains)",
         "48 000 (quick) / 250 000 (thorough) specifications, 5 chains each (instantiated from declared paths with boundary counts per placeholder, edited, random; unreachable chains opened through the unknown-size option), every element offered at every chain prefix, on the writer side with a whole Full master (acceptable or refused) written before the offers now and then, so that a verdict depending on history shows: ~12 M writer/reader decisions per quick run, confusion matrix in the evidence (disagreement cells must be 0).",
         "trusted: ref_match (cross-checked against a brute-force enumerator in unit tests over 500 000 path/chain pairs), ref_closes; ambiguous (chain, tag) triples skipped and counted", "4.11"),
 "C19": ("model-based proptest: valid call sequence with 1-3 contract-failing calls inserted; differential oracle against the run without the failing calls",
         "480 000 (quick) / 2 M (thorough) sequences with failing calls (plus 160 000 / 800 000 cases of a master End rejected for its width: the master must stay open and unchanged) of every documented kind (tag not allowed, size not representable for a leaf or for a Full master, unknown size on a non-master through both calls, malformed raw id, End of a master that is not the innermost, Full master with an invalid child / a stray End child / a child master left open) inserted at generated positions; the failing call must return a non-I/O error, every other call must behave as in the reference run, the destination must stay a prefix of W(V) after every call and the final bytes must be identical. Third stage (320 000 / 1.5 M): arbitrary calls — any element as Start / End / Full with arbitrary children, any option, both unknown-size calls, write_raw — are mixed into a valid sequence; each refused call is removed in turn and the run repeated: every later verdict, the destination after every later call, the flush result and the final bytes must be the same (the statement as a metamorphic relation, no knowledge of which calls must fail).",
         "trusted: ref_match to construct calls that must fail; the destination never fails", "4.19"),
 "C03": ("proptest over the reader input mix × tolerance × buffered set × capacity; oracle = reference header parser + reference payload decoders at the reported offsets (validity predicate + tiling invariant)",
         "960 000 (quick) / 5 M (thorough) inputs (valid, non-canonical, mutated, random, adversarial, mid-document) are read under random configurations (a third of them through short reads of 1-61 bytes); for every successful item up to the first error the id at the reported offset, the decoded value, the tiling of consecutive tags (inside Full items too) and the offsets of End/Full items are checked against the input bytes with an independent header parser and decoders.",
         "trusted: ref_header / ref_decode; a 0x00 byte read as raw id 0 under InvalidTagIds tolerance is accepted as its own class", "4.3"),
 "C04": ("exhaustive enumeration of all read partitions of small inputs × capacities + proptest random schedules / EOF pauses; metamorphic oracle (equality with the slice parse)",
         "Every composition of the input length into read sizes (2^(len-1) schedules) for 90 (quick, length <= 13) / 300 (thorough, length <= 16) small valid / truncated / corrupted documents × 12 capacities incl. 0, plus random schedules, capacities 0..64 and temporary Ok(0) at tag boundaries on the full reader mix; the whole observation sequence incl. the first error's fields must equal the slice parse.",
         "metamorphic against the implementation itself (the property is that equality); C03/C06/C12 anchor the slice parse", "4.4"),
 "C05": ("proptest over (bytes, configuration, next/try_recover call script, scripted source with short reads and an injected io::Error, once or from then on); oracle = totality invariants with a call-count bound",
         "960 000 (quick) / 5 M (thorough) generated histories; a stage measuring stack depth against the number of consecutive buffered masters; every call under catch_unwind, item bound 4·len+64, call cap 8× that, fused after None, try_recover error kinds and monotonicity, provenance of read errors, nothing emitted twice after a transient source failure, the item bound also under a source that keeps failing. A libFuzzer target with the same oracle extends the thorough tier.",
         "trusted: the scripted source; consistency of DynSpec/RichSpec; declared sizes that would allocate > 64 MiB are read under a 1 MiB limit", "4.5"),
 "C06": ("proptest over mutated / mid-document / mixed known-unknown documents and a dedicated template; oracle = StructureChecker (own stack, ref_match, byte extents from the reference header parser)",
         "960 000 (quick) / 5 M (thorough) strict-mode parses are replayed by an independent checker that keeps its own open-master stack: nesting, ids in spec, declared-path match, containment in every known-size range, End of known-size masters neither early nor late, everything closed with End at the end.",
         "trusted: ref_header, ref_match; where an unknown-size master ends is left to C07", "4.6"),
 "C08": ("proptest inputs × exhaustive enumeration of all buffered-id subsets (<= 6 masters); metamorphic oracle (unrolled buffered parse == unbuffered parse, prefix + error otherwise)",
         "For 96 000 (quick) / 500 000 (thorough) inputs every subset of the spec's master ids (all 2^m - 1 for m <= 6, 12 sampled otherwise) is used as buffered set; the unrolled result must equal the unbuffered parse item by item incl. offsets outside Full items, or be a prefix followed by an error when the unbuffered parse fails. Second stage (160 000 / 800 000 inputs): buffering interrupted — end-of-stream closing off, temporary end-of-file at generated tag boundaries, next() called again — must still give the flat stream rolled up (stopping short only right before a buffered master that never gets its End).",
         "metamorphic against the unbuffered parse (anchored by C03/C06/C12)", "4.8"),
 "C01": ("proptest over choice tapes decoded into (specification, conformant forest, per-tag presentation); oracle = generator-side expected sequence (round trip)",
         "640 000 (quick) / 3 M (thorough) generated documents under generated specifications and the macro-derived RichSpec are written through TagWriter with every presentation (default, width 1-8, unknown size, Full with nested Full or Start/End children, raw tags, leaves through write_raw) and read back by the strict iterator; the expected item sequence is the generator's own flattening of the tree, so a symmetric writer+reader bug still shows whenever it changes a value or the structure. Sampling, not exhaustive: depth <= 7, <= 60 elements, payload <= 16 385 bytes (2 MiB in a thorough sub-stage).",
         "trusted: generator-side flatten(), DynSpec consistency; ambiguous shapes (global element right after an unknown-size master, unknown size on masters with placeholder paths) are excluded by construction and counted", "4.1"),
 "C07": ("proptest-generated forests × exhaustive enumeration of all 2^m unknown-size subsets (m <= 8), two encoders, equality with the all-known-size reading",
         "For each of 80 000 (quick) / 500 000 (thorough) generated forests (one in five under a recursive template specification) with at most 8 master instances every subset of them is encoded with unknown size (real writer: 8-byte marker; reference encoder: all-ones in width 1-8) and the strict reading — and the reading under one generated non-empty set of tolerated error classes — must equal flatten(forest) including the position of every End; 64 sampled subsets beyond 8 masters. Exhaustive over subsets per document, sampled over documents/specifications.",
         "trusted: reference encoder, generator-side flatten(); ref_closes() decides which subsets are ambiguous and therefore skipped (counted)", "4.7"),
 "C12": ("proptest-generated documents × exhaustive enumeration of every cut position; oracle = layout of the independent reference encoder",
         "Every byte position of each of 32 000 (quick) / 200 000 (thorough) generated documents (canonical and non-canonical encodings, known/unknown sizes, 1-8 byte ids) is used as truncation point under a slice source, 1-byte reads or pseudo-random chunking and several capacities; expected prefix, closing Ends and every field of the UnexpectedEOF error are computed from the encoder's layout, never from the reader. Exhaustive over cuts per document, sampled over documents. Second stage: 1 500 (quick) / 12 000 (thorough) documents with one payload of 65-145 KB (beyond the 64 KiB default buffer), ~27 sampled cuts each (element ends, multiples of 64 KiB inside the payload, random).",
         "trusted: reference encoder layout; Ends between the last complete tag and the incomplete one are optional (the statement does not fix them)", "4.12"),
 "C15": ("exhaustive enumeration of short values/slices + boundary lattice + proptest random values against an independent u128/i128 vint codec",
         "Every value below 2^23 (quick) / 2^28 (thorough) in all nine encoder variants and through every implementation of the Vint trait (u64, u32, u16, u8) that can hold the value, |v| < 2^22 / 2^27 signed, every byte slice of length <= 3, every id candidate below 2^24, a lattice around every power-of-two boundary, and random 64-bit values are compared with a reference codec written from RFC 8794. Exhaustive inside those bounds, sampled outside; the functions are pure so there is no state to miss.",
         "trusted: the reference codec in harness/core/src/refmodel.rs (unit-tested against the crate's documented examples); widths 1..8 only", "4.15"),
 "C16": ("exhaustive enumeration of slices <= 2-3 bytes + bit lattice + proptest random slices / written values against from_be_bytes reference decoders",
         "All slices of length <= 3, a bit lattice for lengths 3..16 and random slices of 0..16 bytes are decoded by arr_to_u64/i64/f64 and by reference decoders; boundary and random u64/i64/f64 values are written through TagWriter — with default options and with every explicit size-field width 1-8 —, the payload located with the reference header parser, its width checked against the minimal 1/2/4/8 rule and decoded by library, reference and iterator (from a slice, and — followed by a second copy — through 1-byte reads into a 16-byte buffer).",
         "trusted: reference decoders (from_be_bytes based) and reference header parser", "4.16"),
}
TODO_REASON = "not claimed"
ALL = ["C%02d" % i for i in range(1, 21)]

def main():
    checks = []
    for pid in ALL:
        if pid not in CLAIMED:
            continue
        tech, text, note, ref = CLAIMED[pid]
        checks.append({
            "property_id": pid,
            "quick_cmd": "./check %s quick" % pid,
            "thorough_cmd": "./check %s thorough" % pid,
            "evidence_file": "/verif/evidence/%s.json" % pid,
            "replay_cmd_template": "./check %s --replay {path}" % pid,
            "engine": "ebv",
            "level_claimed": {"category": "exploration", "text": text, "design_ref": "DESIGN.md section " + ref},
            "level_note": note,
            "technique": tech,
        })
    m = {
        "version": 1,
        "setup_cmd": "./check --setup",
        "hooks": {
            "guard": "ebml_iterable_verif",
            "enable": "none needed: every check observes public API only; no instrumentation was added to /repo",
            "baseline_off_cmd": "cd /repo && cargo test --workspace --no-fail-fast --offline",
            "source_commits": [],
            "add_only": True,
        },
        "engines": [
            {"name": "ebv", "path": "/verif/harness", "serves_properties": sorted(CLAIMED),
             "kind_free_text": "Rust harness (path-depends on /repo): proptest TestRunner over choice tapes, sharded on 16 threads, hand-rolled exhaustive enumerators, explicit reference model as oracle; libFuzzer targets reuse the same decoders and oracles"},
        ],
        "checks": checks,
        "notes": "Thorough tiers add a libFuzzer stage (cargo-fuzz target `stage`: the fuzzer's bytes are the choice tape of the property's own stage function, oracle inside; `codec` for C15/C16), VERIF_FUZZ_SECONDS (default 120) x 8 forked jobs. exit 0 = held, 1 = VIOLATION line, 2 = inconclusive (build failure / health gate). Genuine defects repaired in /repo as 'fix:' commits are listed in KNOWN_FINDINGS.txt with their regression inputs under findings/.",
        "not_applicable": [{"property_id": p, "reason": TODO_REASON} for p in ALL if p not in CLAIMED],
    }
    json.dump(m, open(os.path.join(ROOT, "MANIFEST.json"), "w"), indent=1)
    print("MANIFEST.json: %d checks, %d not_applicable" % (len(checks), len(m["not_applicable"])))

if __name__ == "__main__":
    main()
