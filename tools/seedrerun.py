#!/usr/bin/env python3
"""Re-run the own-property quick check of every kept seeded change against the current /repo (after /repo or the harness
changed). usage: seedrerun.py [ID ...] [--all-checks]. Applies each patch to /repo only for the duration of its run; updates
seeded/<ID>/meta.json ("rerun": {...}). Patches that no longer apply are reported, nothing is run for them."""
import json, os, subprocess, sys, time
ROOT = os.path.dirname(os.path.dirname(os.path.abspath(__file__)))

def sh(cmd, cwd=None, timeout=3600):
    e = dict(os.environ); e["CARGO_NET_OFFLINE"] = "true"
    p = subprocess.run(cmd, shell=True, cwd=cwd, stdout=subprocess.PIPE, stderr=subprocess.STDOUT, text=True, timeout=timeout, env=e)
    return p.returncode, p.stdout

def main():
    args = [a for a in sys.argv[1:] if not a.startswith("--")]
    ids = args or sorted(os.listdir(os.path.join(ROOT, "seeded")))
    rc, o = sh("git status --short | grep -v '^??' | head -3", cwd="/repo")
    if o.strip():
        print("/repo is dirty, refusing:", o); return 2
    rc, head = sh("git rev-parse --short HEAD", cwd="/repo")
    for sid in ids:
        d = os.path.join(ROOT, "seeded", sid)
        patch = os.path.join(d, "patch.diff")
        if not os.path.exists(patch):
            continue
        meta = json.load(open(os.path.join(d, "meta.json")))
        prop = meta.get("property", sid.split("-")[0])
        rc, o = sh("git apply --check %s" % patch, cwd="/repo")
        if rc != 0:
            print("%-8s patch does not apply to /repo %s: %s" % (sid, head.strip(), o.strip().splitlines()[0][:150]))
            continue
        try:
            sh("git apply %s" % patch, cwd="/repo")
            t0 = time.time()
            rc, o = sh("./check %s quick" % prop, cwd=ROOT, timeout=3000)
            last = [l for l in o.splitlines() if l.startswith(("VIOLATION", "OK ", "INCONCLUSIVE"))]
            meta["rerun"] = {"repo_head": head.strip(), "check": prop, "exit": rc, "wall_s": round(time.time() - t0, 1), "line": (last[-1] if last else o[-200:])[:300]}
            print("%-8s %s exit=%d %s" % (sid, prop, rc, meta["rerun"]["line"][:160]))
            # the table (tools/mkseedtable.py) reads these
            meta.setdefault("checks", {})[prop] = {"exit": rc, "wall_s": meta["rerun"]["wall_s"], "line": meta["rerun"]["line"]}
            meta["caught_by"] = sorted(c for c, r in meta["checks"].items() if r.get("exit") == 1)
            meta["target_check_catches"] = rc == 1
        finally:
            sh("git checkout -- . && git clean -fdq tests", cwd="/repo")
        json.dump(meta, open(os.path.join(d, "meta.json"), "w"), indent=1)
    sh("git checkout -- evidence", cwd=ROOT)
    return 0

if __name__ == "__main__":
    sys.exit(main())
