#!/usr/bin/env python3
"""Render seeded/*/meta.json as SENSITIVITY.md (which checks catch which seeded changes)."""
import json, glob, os
rows = []
for f in sorted(glob.glob('/verif/seeded/*/meta.json')):
    m = json.load(open(f))
    rows.append(m)
out = ["# Sensitivity: seeded changes and the checks that catch them", "",
       "Each change was written by a fresh sub-agent that saw only the property text and a scratch worktree of the repository (nothing from /verif), compiles, passes the repository's whole test suite (36 tests; both feature sets), and comes with a demonstration test that fails with the change and passes without it. Every one was re-confirmed by `tools/seedeval.py` in a scratch worktree before being kept. `quick checks that catch it` lists every registered quick check (seed 1) that exits 1 with the change applied to /repo; all other checks stayed silent.", "",
       "| id | property | change | needs | confirmed | caught by its own check | quick checks that catch it |", "|---|---|---|---|---|---|---|"]
for m in rows:
    out.append("| %s | %s | %s | %s | %s | %s | %s |" % (m["id"], m["property"], (m.get("summary") or "").replace("|", "/").replace("\n", " "), (m.get("needs") or "").replace("|", "/").replace("\n", " ")[:400], "yes" if m.get("confirmed") else "NO", "yes" if m.get("target_check_catches") else "NO", ", ".join(m.get("caught_by", []))))
caught = sum(1 for m in rows if m.get("target_check_catches"))
out += ["", "%d seeded changes, %d caught by the check of the property they were written against, %d caught by at least one check." % (len(rows), caught, sum(1 for m in rows if m.get("caught_by")))]
open('/verif/SENSITIVITY.md', 'w').write("\n".join(out) + "\n")
print(out[-1])
