#!/usr/bin/env python3
"""Confirm a seeded change (scratch worktree) and run the registered quick checks against it.
usage: seedeval.py <ID> [--src /tmp/seed/<ID>-out] [--wt /tmp/seed/<ID>] [--checks C01,C02,...]
Writes /verif/seeded/<ID>/{patch.diff,demo.rs,meta.json}. Applies the patch to /repo only for the duration of the runs."""
import json, os, subprocess, sys, shutil, time

def sh(cmd, cwd=None, timeout=3600, env=None):
    e = dict(os.environ); e.update(env or {}); e["CARGO_NET_OFFLINE"] = "true"
    p = subprocess.run(cmd, shell=True, cwd=cwd, stdout=subprocess.PIPE, stderr=subprocess.STDOUT, text=True, timeout=timeout, env=e)
    return p.returncode, p.stdout

def main():
    sid = sys.argv[1]
    args = sys.argv[2:]
    def opt(name, default):
        return args[args.index(name) + 1] if name in args else default
    src = opt("--src", "/tmp/seed/%s-out" % sid)
    wt = opt("--wt", "/tmp/seed/%s" % sid.split('-')[0])
    prop = opt("--prop", sid.split('-')[0])
    checks = opt("--checks", ",".join("C%02d" % i for i in range(1, 21))).split(",")
    patch = os.path.join(src, "patch.diff"); demo = os.path.join(src, "demo.rs")
    meta = json.load(open(os.path.join(src, "meta.json"))) if os.path.exists(os.path.join(src, "meta.json")) else {}
    out = {"id": sid, "property": prop, "summary": meta.get("summary"), "needs": meta.get("needs"), "ran": []}
    # 1. confirm in the scratch worktree
    sh("git checkout -- . && git clean -fdq tests", cwd=wt)
    rc, o = sh("git apply --check %s" % patch, cwd=wt)
    if rc != 0:
        print("patch does not apply to the worktree:", o); out["confirmed"] = False
    else:
        shutil.copy(demo, os.path.join(wt, "tests/seeded_demo.rs"))
        feats = "--features derive-spec,futures"
        rc0, o0 = sh("cargo test --offline %s --test seeded_demo 2>&1 | tail -5" % feats, cwd=wt)
        demo_ok_clean = "test result: ok" in o0
        sh("git apply %s" % patch, cwd=wt)
        rc1, o1 = sh("cargo test --offline %s --test seeded_demo 2>&1 | tail -8" % feats, cwd=wt)
        demo_fails = "test result: FAILED" in o1 or "panicked" in o1 or "error: test failed" in o1
        os.remove(os.path.join(wt, "tests/seeded_demo.rs"))
        rc2, o2 = sh("cargo test --offline --no-fail-fast 2>&1 | grep -E '^test result|^error' ; cargo test --offline %s --no-fail-fast 2>&1 | grep -E '^test result|^error'" % feats, cwd=wt)
        suite_ok = ("FAILED" not in o2) and ("error" not in o2) and o2.count("test result: ok") >= 10
        passed = sum(int(l.split("ok.")[1].split("passed")[0]) for l in o2.splitlines() if l.startswith("test result: ok"))
        out.update({"confirmed": bool(demo_ok_clean and demo_fails and suite_ok), "demo_passes_without_patch": demo_ok_clean, "demo_fails_with_patch": demo_fails, "existing_tests_pass_with_patch": suite_ok, "tests_passed_total_both_feature_sets": passed})
        out["ran"] += ["cargo test --offline --features derive-spec,futures --test seeded_demo (clean tree, then with patch)", "cargo test --offline --no-fail-fast ; cargo test --offline --features derive-spec,futures --no-fail-fast (with patch)"]
        sh("git checkout -- . && git clean -fdq tests", cwd=wt)
        print("confirmed" if out["confirmed"] else "NOT CONFIRMED", json.dumps({k: out[k] for k in ("demo_passes_without_patch", "demo_fails_with_patch", "existing_tests_pass_with_patch")}))
        if not out["confirmed"]:
            print(o0[-400:], o1[-400:], o2[-600:])
    # 2. run the checks against /repo with the patch applied
    rc, o = sh("git status --short | grep -v '^??' | head -3", cwd="/repo")
    if o.strip():
        print("/repo is dirty, refusing:", o); return 2
    rc, o = sh("git apply --check %s" % patch, cwd="/repo")
    if rc != 0:
        print("patch does not apply to /repo:", o); return 2
    results = {}
    try:
        sh("git apply %s" % patch, cwd="/repo")
        for c in checks:
            t0 = time.time()
            rc, o = sh("./check %s quick" % c, cwd="/verif", timeout=3000)
            last = [l for l in o.splitlines() if l.startswith(("VIOLATION", "OK ", "INCONCLUSIVE", "stage "))]
            results[c] = {"exit": rc, "wall_s": round(time.time() - t0, 1), "line": (last[0] if last else o[-200:])[:300]}
            print("  %s exit=%d %.0fs %s" % (c, rc, time.time() - t0, (last[0] if last else "")[:160]))
    finally:
        sh("git checkout -- .", cwd="/repo")
        # evidence files were rewritten by runs against a changed tree: restore committed ones
        sh("git checkout -- evidence", cwd="/verif")
        sh("rm -rf replays/*", cwd="/verif")
    prev = os.path.join("/verif/seeded/%s" % sid, "meta.json")
    if "--checks" in args and os.path.exists(prev):
        old = json.load(open(prev)).get("checks", {})
        old.update(results)
        results = old
    out["checks"] = results
    out["caught_by"] = [c for c, r in results.items() if r["exit"] == 1]
    out["target_check_catches"] = results.get(prop, {}).get("exit") == 1
    d = "/verif/seeded/%s" % sid
    os.makedirs(d, exist_ok=True)
    shutil.copy(patch, os.path.join(d, "patch.diff")); shutil.copy(demo, os.path.join(d, "demo.rs"))
    json.dump(out, open(os.path.join(d, "meta.json"), "w"), indent=1)
    print("caught by:", out["caught_by"], "| target", prop, "catches:", out["target_check_catches"])
    return 0

if __name__ == "__main__":
    sys.exit(main())
